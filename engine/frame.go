package main

import (
	"fmt"
	"go/ast"
	"go/parser"
	"go/token"
	"go/types"
	"sort"
	"strings"
)

// Object-precise frames.
//
// A postcondition or loop invariant of the shape
//     touches(o1, ..)            or    imp(G, .. && touches(o1, ..) && ..)
// (G and the listed objects evaluated in the old state) is not only an
// obligation of the function that carries it; where it is *used* (at a call
// site, at the head of a cut loop) it determines how the heap is forgotten:
// instead of replacing each possibly-written heap key by an unknown array and
// stating the frame as a quantified fact, the key becomes
//     ite(G, old-with-unknown-cells-at-the-listed-objects, unknown)
// Objects that did not exist in the old state need no cell: whatever an
// unallocated index holds is unconstrained anyway.

type touchSet struct {
	refs      []typedRef          // whole objects / maps
	arrs      []typedRef          // backing arrays of listed slices
	fieldRefs map[string][]string // heap key prefix of one field -> objects
	structs   []structRef         // listed pointers to structs (for their array fields)
}

type typedRef struct {
	term string
	typ  string // type key ("" = unknown: matches every key)
}

type structRef struct {
	obj  string
	root types.Type
}

// touchArgs evaluates the arguments of a touches() call.
func (x *X) touchArgs(env *Env, e *ast.CallExpr) *touchSet {
	ts := &touchSet{fieldRefs: map[string][]string{}}
	for _, a := range e.Args {
		if u, ok := a.(*ast.UnaryExpr); ok && u.Op == token.AND {
			// &p.f: only field f of object p
			if sel, ok := u.X.(*ast.SelectorExpr); ok {
				base := x.eval(env, sel.X)
				if p, ok := base.V.(Ptr); ok && p.Kind == pObj && len(p.Path) == 0 {
					root := base.T.Underlying().(*types.Pointer).Elem()
					fl := objLoc(root, p.Obj).field(sel.Sel.Name)
					if st, ok := root.Underlying().(*types.Struct); ok {
						for i := 0; i < st.NumFields(); i++ {
							if at, isArr := st.Field(i).Type().Underlying().(*types.Array); isArr && st.Field(i).Name() == sel.Sel.Name {
								// an array field: the array inside the object
								ts.arrs = append(ts.arrs, typedRef{x.interiorArr(fl), typeKey(at.Elem())})
								fl.key = ""
							}
						}
					}
					if fl.key != "" {
						ts.fieldRefs[fl.key] = append(ts.fieldRefs[fl.key], p.Obj)
					}
					continue
				}
			}
			panic("contract: touches(&p.f) needs a pointer p to a struct")
		}
		tv := x.eval(env, a)
		switch v := tv.V.(type) {
		case Ptr:
			if v.Kind != pObj || len(v.Path) != 0 {
				panic("contract: touches() of an interior pointer")
			}
			typ := ""
			if v.Root != nil {
				typ = typeKey(v.Root)
				ts.structs = append(ts.structs, structRef{v.Obj, v.Root})
			}
			ts.refs = append(ts.refs, typedRef{v.Obj, typ})
		case MapV:
			ts.refs = append(ts.refs, typedRef{v.Ref, typeKey(tv.T)})
		case Slice:
			typ := ""
			if st, ok := tv.T.Underlying().(*types.Slice); ok {
				typ = typeKey(st.Elem())
			}
			ts.arrs = append(ts.arrs, typedRef{v.Arr, typ})
		default:
			panic("contract: touches() takes pointers, maps and slices")
		}
	}
	return ts
}

func (ts *touchSet) fieldKeys() []string {
	var fks []string
	for fk := range ts.fieldRefs {
		fks = append(fks, fk)
	}
	sort.Strings(fks)
	return fks
}

func keyHasPrefix(k, fk string) bool {
	return k == fk || strings.HasPrefix(k, fk+"#") || strings.HasPrefix(k, fk+".")
}

// cellsOf lists the first-level indices of heap key k that the touch set allows to change.
func (x *X) cellsOf(ts *touchSet, k string) []string {
	var out []string
	seen := map[string]bool{}
	add := func(t string) {
		if !seen[t] {
			seen[t] = true
			out = append(out, t)
		}
	}
	if strings.HasPrefix(k, "E:") {
		for _, a := range ts.arrs {
			if a.typ == "" || keyOfType(k, a.typ) {
				add(a.term)
			}
		}
		// arrays inside listed objects
		for _, s := range ts.structs {
			st, ok := s.root.Underlying().(*types.Struct)
			if !ok {
				if at, ok := s.root.Underlying().(*types.Array); ok && keyOfType(k, typeKey(at.Elem())) {
					add(s.obj)
				}
				continue
			}
			x.arrayFields(objLoc(s.root, s.obj), st, k, add)
		}
		return out
	}
	for _, r := range ts.refs {
		if r.typ == "" || keyOfType(k, r.typ) {
			add(r.term)
		}
	}
	for _, fk := range ts.fieldKeys() {
		if keyHasPrefix(k, fk) {
			for _, o := range ts.fieldRefs[fk] {
				add(o)
			}
		}
	}
	return out
}

// arrayFields reports the identities of the arrays of element key k nested in the struct at l.
func (x *X) arrayFields(l loc, st *types.Struct, k string, add func(string)) {
	for i := 0; i < st.NumFields(); i++ {
		f := st.Field(i)
		fl := l.field(f.Name())
		switch u := f.Type().Underlying().(type) {
		case *types.Array:
			if keyOfType(k, typeKey(u.Elem())) {
				add(x.interiorArr(fl))
			}
		case *types.Struct:
			x.arrayFields(fl, u, k, add)
		}
	}
}

// frameClause is one guarded touches() found in a postcondition or invariant.
type frameClause struct {
	guard    ast.Expr // about the old state (conjunction of old(..)); nil = unconditional
	resGuard ast.Expr // about the result values only (call sites); nil = none
	call     *ast.CallExpr
	loop     bool // loopframe(): relative to the state on entry of the loop
}

// splitFrame recognises  touches(..)  and  imp(G, A && touches(..) && B)  and
// returns the clause together with the expression that remains when the
// touches() conjunct is removed (nil if nothing remains).
func splitFrame(src string) (*frameClause, ast.Expr) {
	e, err := parser.ParseExpr(src)
	if err != nil {
		return nil, nil
	}
	if c, ok := isFrameCall(e); ok {
		return &frameClause{call: c, loop: frameIsLoop(c)}, nil
	}
	if c, ok := isCall(e, "imp"); ok && len(c.Args) == 2 {
		t, rest := pickTouches(c.Args[1])
		if t == nil {
			return nil, nil
		}
		var og, rg ast.Expr
		for _, cj := range conjuncts(c.Args[0]) {
			switch {
			case oldOnly(cj):
				og = andExpr(og, cj)
			case resultOnly(cj):
				rg = andExpr(rg, cj)
			default:
				return nil, nil
			}
		}
		var restE ast.Expr
		if rest != nil {
			restE = &ast.CallExpr{Fun: c.Fun, Args: []ast.Expr{c.Args[0], rest}}
		}
		return &frameClause{guard: og, resGuard: rg, call: t, loop: frameIsLoop(t)}, restE
	}
	if t, rest := pickTouches(e); t != nil {
		return &frameClause{call: t, loop: frameIsLoop(t)}, rest
	}
	return nil, nil
}

func isCall(e ast.Expr, name string) (*ast.CallExpr, bool) {
	for {
		p, ok := e.(*ast.ParenExpr)
		if !ok {
			break
		}
		e = p.X
	}
	c, ok := e.(*ast.CallExpr)
	if !ok {
		return nil, false
	}
	id, ok := c.Fun.(*ast.Ident)
	return c, ok && id.Name == name
}

// pickTouches finds one touches() among the conjuncts of e.
func pickTouches(e ast.Expr) (*ast.CallExpr, ast.Expr) {
	for {
		p, ok := e.(*ast.ParenExpr)
		if !ok {
			break
		}
		e = p.X
	}
	if c, ok := isFrameCall(e); ok {
		return c, nil
	}
	b, ok := e.(*ast.BinaryExpr)
	if !ok || b.Op != token.LAND {
		return nil, nil
	}
	if t, rest := pickTouches(b.X); t != nil {
		if rest == nil {
			return t, b.Y
		}
		return t, &ast.BinaryExpr{X: rest, Op: token.LAND, Y: b.Y}
	}
	if t, rest := pickTouches(b.Y); t != nil {
		if rest == nil {
			return t, b.X
		}
		return t, &ast.BinaryExpr{X: b.X, Op: token.LAND, Y: rest}
	}
	return nil, nil
}

// preciseHavoc forgets the heap keys of w under the frame clauses fcs, all of
// which are evaluated in state `old` (the state the frames are relative to):
// key := ite(G1, old-with-cells-1, ite(G2, .., unknown)). Keys forgotten by
// pattern are not refined. Must be called with x.st being the state to modify.
func (x *X) preciseHavoc(w *writeSet, why string, env *Env, old *State, fcs []*frameClause, mid func()) {
	x.preciseHavoc2(w, why, env, old, nil, fcs, mid)
}

// preciseHavoc2: clauses marked loop are relative to loopOld, the others to old.
func (x *X) preciseHavoc2(w *writeSet, why string, env *Env, old, loopOld *State, fcs []*frameClause, mid func()) {
	type evald struct {
		guard string
		ts    *touchSet
		rel   *State
	}
	var es []evald
	// guards and objects are read in the old state
	save := x.st
	for _, fc := range fcs {
		rel := old
		if fc.loop {
			rel = loopOld
		}
		if rel == nil {
			panic("contract: frame without a state to relate to")
		}
		x.st = rel.clone()
		x.st.cond = save.cond
		oenv := env.child()
		oenv.old = old
		g := "true"
		if fc.guard != nil {
			savePol := x.polarity
			x.polarity = 1 // the guard has to be established for the frame to be used
			tv := x.eval(oenv, fc.guard)
			x.polarity = savePol
			g = tv.V.(S).T
		}
		es = append(es, evald{g, x.touchArgs(oenv, fc.call), rel})
	}
	x.st = save
	// old values of the keys to be forgotten (before they are replaced)
	var keys []string
	for k := range w.keys {
		if !strings.HasPrefix(k, "@") {
			keys = append(keys, k)
		}
	}
	sort.Strings(keys)
	was := map[*State]map[string]string{}
	for _, k := range keys {
		if _, ok := x.heapSorts[k]; !ok {
			x.heapSorts[k] = w.keys[k]
		}
		for _, e := range es {
			if was[e.rel] == nil {
				was[e.rel] = map[string]string{}
			}
			was[e.rel][k] = x.heapIn(e.rel, k)
		}
	}
	x.havocWrites(w, why)
	if mid != nil {
		mid() // binds the result values in env
	}
	if w.all {
		return
	}
	for i, fc := range fcs {
		if fc.resGuard != nil {
			g := x.eval(env, fc.resGuard).V.(S).T
			if es[i].guard == "true" {
				es[i].guard = g
			} else {
				es[i].guard = "(and " + es[i].guard + " " + g + ")"
			}
		}
	}
	for _, k := range keys {
		if strings.HasPrefix(k, "B:") {
			continue // not forgotten (see havocWrites)
		}
		srt := x.heapSorts[k]
		unknown := x.st.heap[k]
		term := unknown
		for i := len(es) - 1; i >= 0; i-- {
			var precise string
			if !strings.HasPrefix(srt, "(Array Int ") {
				precise = was[es[i].rel][k]
			} else {
				precise = was[es[i].rel][k]
				for _, c := range x.cellsOf(es[i].ts, k) {
					precise = fmt.Sprintf("(store %s %s (select %s %s))", precise, c, unknown, c)
				}
			}
			if es[i].guard == "true" {
				term = precise
			} else {
				term = fmt.Sprintf("(ite %s %s %s)", es[i].guard, precise, term)
			}
		}
		if term != unknown {
			x.st.heap[k] = x.define("hf."+k, srt, term)
		}
	}
}

// oldOnly: e is a conjunction of old(..) terms, i.e. it speaks about the old state only.
func oldOnly(e ast.Expr) bool {
	for {
		p, ok := e.(*ast.ParenExpr)
		if !ok {
			break
		}
		e = p.X
	}
	if b, ok := e.(*ast.BinaryExpr); ok && b.Op == token.LAND {
		return oldOnly(b.X) && oldOnly(b.Y)
	}
	_, ok := isCall(e, "old")
	return ok
}

func conjuncts(e ast.Expr) []ast.Expr {
	for {
		p, ok := e.(*ast.ParenExpr)
		if !ok {
			break
		}
		e = p.X
	}
	if b, ok := e.(*ast.BinaryExpr); ok && b.Op == token.LAND {
		return append(conjuncts(b.X), conjuncts(b.Y)...)
	}
	return []ast.Expr{e}
}

func andExpr(a, b ast.Expr) ast.Expr {
	if a == nil {
		return b
	}
	return &ast.BinaryExpr{X: a, Op: token.LAND, Y: b}
}

// resultOnly: e compares result values with nil or literals and mentions nothing else.
func resultOnly(e ast.Expr) bool {
	ok := true
	ast.Inspect(e, func(n ast.Node) bool {
		switch n := n.(type) {
		case *ast.Ident:
			if n.Name != "nil" && n.Name != "true" && n.Name != "false" && !strings.HasPrefix(n.Name, "result") {
				ok = false
			}
		case *ast.CallExpr, *ast.SelectorExpr, *ast.IndexExpr, *ast.StarExpr:
			ok = false
		}
		return ok
	})
	return ok
}

func isFrameCall(e ast.Expr) (*ast.CallExpr, bool) {
	if c, ok := isCall(e, "touches"); ok {
		return c, true
	}
	return isCall(e, "loopframe")
}

func frameIsLoop(c *ast.CallExpr) bool {
	id, ok := c.Fun.(*ast.Ident)
	return ok && id.Name == "loopframe"
}
