package main

func init() {
	semver := pkgRef{"util/semver", "deps.dev/util/semver"}
	propDefs["C01"] = &PropDef{
		ID:       "C01",
		Pkgs:     []pkgRef{semver},
		Replayer: replayC01,
		Assume: []string{
			"domain predicates (plain, gem, ...) describe the versions Parse produces; that the parsers establish them is not proved here",
			"strings are an abstract totally ordered sort (order embedding into the reals) with length and byte functions; lexicographic order is not tied to bytes",
		},
	}
}
