package main

var c04Pkgs = []pkgRef{
	{"util/semver", "deps.dev/util/semver"},
	{"util/resolve", "deps.dev/util/resolve"},
	{"util/resolve", "deps.dev/util/resolve/internal/attr"},
	{"util/resolve", "deps.dev/util/resolve/dep"},
	{"util/resolve", "deps.dev/util/resolve/version"},
	{"util/resolve", "deps.dev/util/resolve/pypi"},
	{"util/pypi", "deps.dev/util/pypi"},
	{"util/maven", "deps.dev/util/maven"},
}

func init() {
	semver := pkgRef{"util/semver", "deps.dev/util/semver"}
	propDefs["C04"] = &PropDef{
		ID:       "C04",
		Replayer: replayC04,
		Extra: func(c *checkCtx, wb bool) []OblResult {
			return sweepFuncs(c, c04Pkgs, wb, nil)
		},
		Assume: []string{
			"only the obligations of the committed inventory (/verif/baseline/C04.json) are claimed: sites that need contracts not yet written are listed as not claimed",
			"receivers and pointer parameters may be nil unless a contract says otherwise; loops without an invariant are cut with everything they write forgotten",
			"termination is not part of the discharged obligations except for loops carrying a `decreases` clause",
		},
	}
	propDefs["C13"] = &PropDef{
		ID:   "C13",
		Pkgs: []pkgRef{{"util/resolve", "deps.dev/util/resolve"}},
		Assume: []string{
			"partial: only the comparators Canon relies on (PackageKey, VersionKey, NodeError, Node) are decided: total orders whose zero is structural equality; canonBFS, renumber, Mapping, Swap/Less and the isomorphism statement itself are not covered",
		},
	}
	propDefs["C01"] = &PropDef{
		ID:       "C01",
		Pkgs:     []pkgRef{semver},
		Replayer: replayC01,
		Assume: []string{
			"domain predicates (plain, gem, ...) describe the versions Parse produces; that the parsers establish them is not proved here",
			"strings are an abstract totally ordered sort (order embedding into the reals) with length and byte functions; lexicographic order is not tied to bytes",
		},
	}
}
