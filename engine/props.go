package main

import (
	"fmt"
	"os"
	"sort"
)

var c04Pkgs = []pkgRef{
	{"util/semver", "deps.dev/util/semver"},
	{"util/resolve", "deps.dev/util/resolve"},
	{"util/resolve", "deps.dev/util/resolve/internal/attr"},
	{"util/resolve", "deps.dev/util/resolve/dep"},
	{"util/resolve", "deps.dev/util/resolve/version"},
	{"util/resolve", "deps.dev/util/resolve/pypi"},
	{"util/pypi", "deps.dev/util/pypi"},
	{"util/maven", "deps.dev/util/maven"},
}

func init() {
	semver := pkgRef{"util/semver", "deps.dev/util/semver"}
	propDefs["C04"] = &PropDef{
		ID:       "C04",
		Replayer: replayC04,
		Extra: func(c *checkCtx, wb bool) []OblResult {
			rs := sweepFuncs(c, c04Pkgs, wb, nil)
			c.bounded = append(c.bounded, "entry points of util/semver, util/pypi and the PyPI marker parser/evaluator over a fixed hostile corpus (about 6000 generated strings plus grammar products), 120 s limit per package: bounded stand-in for termination and for the sites outside the inventory")
			return append(rs, boundedC04(c)...)
		},
		Assume: []string{
			"only the obligations of the committed inventory (/verif/baseline/C04.json) are claimed: sites that need contracts not yet written are listed as not claimed",
			"receivers and pointer parameters may be nil unless a contract says otherwise; loops without an invariant are cut with everything they write forgotten",
			"termination is not part of the discharged obligations except for loops carrying a `decreases` clause",
		},
	}
	propDefs["C05"] = &PropDef{
		ID: "C05",
		Extra: func(c *checkCtx, wb bool) []OblResult {
			prog, err := c.prog("util/resolve")
			if err != nil {
				fmt.Fprintf(os.Stderr, "govc: cannot load util/resolve: %v\n", err)
				os.Exit(2)
			}
			c.fns["npm/maven/pypi (*resolver).Resolve and everything reachable; (*LocalClient) Version/Versions/Requirements/MatchingVersions (frame conditions)"] = true
			rs := OwnershipObligations(prog)
			// per function: "every write site of this function (as reached from the entry points) is fresh".
			// A write site added to a function whose sites were all discharged fails this obligation.
			type agg struct{ n, bad int }
			per := map[string]*agg{}
			var names []string
			for _, r := range rs {
				if r.Kind != "frame" && r.Kind != "frame-memo" {
					continue
				}
				a := per[r.Func]
				if a == nil {
					a = &agg{}
					per[r.Func] = a
					names = append(names, r.Func)
				}
				a.n++
				if r.Status != "proved" {
					a.bad++
				}
			}
			sort.Strings(names)
			for _, n := range names {
				a := per[n]
				o := OblResult{Name: n + "#frame:every write site of the function is fresh", Kind: "frame-function", Func: n, Status: "proved", Solver: "ownership analysis (points-to over go/ssa)", Site: fmt.Sprintf("%d write sites", a.n)}
				if a.bad > 0 {
					o.Status = "failed"
					o.Detail = fmt.Sprintf("%d of %d write sites may reach shared memory", a.bad, a.n)
				}
				rs = append(rs, o)
			}
			for i := range rs {
				rs[i].Order = i
			}
			return rs
		},
		Replayer: replayC05,
		Trusted: []string{
			"the ownership analysis /verif/engine/own.go (inclusion-based points-to over go/ssa with regions FRESH/CLIENT/RESOLVER/MEMO/GLOBAL; not an SMT proof)",
			"library model of own.go (sort.*, slices.*, append/copy/delete, strings.Builder, fmt, errors: which argument they write)",
			"the PyPI resolver's three LRU caches are allowed memo effects: their Get/Add are trusted to behave as a map and are not analysed (their internal list mutation under concurrent use is outside this check)",
			"closed world for interfaces declared in deps.dev packages; the client's own error/context/Stringer implementations",
		},
		Assume: []string{
			"frame condition decides the property: if Resolve and the client methods write only memory allocated during the call, the client reports the same afterwards, earlier calls cannot matter, and concurrent calls have no conflicting access to shared client memory",
			"insertion-order independence of the client contents (C14/C12 territory) is not part of this check",
		},
	}
	propDefs["C19"] = &PropDef{
		ID: "C19",
		Pkgs: []pkgRef{
			{"util/resolve", "deps.dev/util/resolve/internal/attr"},
			{"util/resolve", "deps.dev/util/resolve/dep"},
			{"util/resolve", "deps.dev/util/resolve/version"},
		},
		Trusted: []string{"bit operations on machine words are axiomatised over mathematical integers (bv.bit, and/or/xor/andnot, pow2, lowest set bit, extensionality); bits.TrailingZeros64 is the lowest set bit"},
		Assume: []string{
			"the order and clone clauses are decided; the text round trip (deptest/versiontest ParseString/String, strconv.Quote) is not covered",
			"range over a map is modelled with an arbitrary order and a ghost set of visited keys",
		},
	}
	propDefs["C18"] = &PropDef{
		ID:   "C18",
		Pkgs: []pkgRef{{"util/resolve", "deps.dev/util/resolve"}},
		Extra: func(c *checkCtx, wb bool) []OblResult {
			prog, err := c.prog("util/resolve")
			if err != nil {
				fmt.Fprintf(os.Stderr, "govc: cannot load util/resolve: %v\n", err)
				os.Exit(2)
			}
			c.fns["resolve.(*APIClient) methods: guarded_by bundledVersionsMu on bundledVersions (lock discipline)"] = true
			return LockObligations(prog, "deps.dev/util/resolve", "APIClient", "bundledVersions", "bundledVersionsMu", "resolve.NewAPIClient")
		},
		Trusted: []string{"the dominance-based lock-discipline check /verif/engine/lock.go; sync.Mutex; gRPC client internals"},
		Assume: []string{
			"partial: race-freedom of the client's own state (every access to bundledVersions holds bundledVersionsMu, every other APIClient field is written only in NewAPIClient) and the alias split of flattenNPMDeps (name = text before the last '@', version = the rest; non-aliased requirements unchanged) as site assertions; bundle mapping consistency across the four calls and equality of graphs with the in-memory client are not covered",
		},
	}
	propDefs["C16"] = &PropDef{
		ID:   "C16",
		Pkgs: []pkgRef{{"util/resolve", "deps.dev/util/resolve/pypi"}, {"util/pypi", "deps.dev/util/pypi"}},
		Assume: []string{
			"partial: markerExpr.Eval against the PEP 508 operator table on strings, `extra` membership, and delegation to the version constraint; CanonPackageName on names over [-_.A-Za-z0-9] yields only [a-z0-9-] with no two '-' in a row (its buffer is a ghost byte sequence: bytes.Buffer WriteByte/String are modelled, not verified); requirement and marker parsing, idempotence of the normalisation and the and/or combinators are not covered",
		},
	}
	propDefs["C02"] = &PropDef{
		ID:   "C02",
		Pkgs: []pkgRef{semver},
		Assume: []string{
			"partial, comparator half only: individual rules of the published orderings (semver.org section 11, PEP 440 sort key, Gem::Version) are proved as lemmas over the derived summaries of the comparators on the parsed representation; that a string is parsed into the fields the reference tool would see, Maven's ComparableVersion, NuGet's case rule, PEP 440 local segments and normalised-form acceptance are not covered",
		},
	}
	propDefs["C03"] = &PropDef{
		ID:   "C03",
		Pkgs: []pkgRef{semver},
		Assume: []string{
			"partial, one stage only: how opVersionToSpan turns an operator (none, =, >, >=, <, <=, ^, ~) and a three-number version (or a two- or one-number version, or an x-range M.m.* / M.*.* under no operator, = and ^) without prerelease, wildcard or extension (NPM, Cargo, Default) into a span: rank, open flags and the numbers of both ends, against the range tables of node-semver and Cargo as read from their documentation (not against the tools themselves); tokenising, partial versions and x-ranges, prerelease operands, hyphen ranges, and/or lists, Intersect/canon, the match itself, PyPI, Maven, RubyGems, NuGet and Composer are not covered",
			"success is part of each postcondition (a range of this shape is not rejected); this rests on the assumed frame of (*Version).Canon (trusted contract: it changes nothing that existed before the call), which stands between newSpan's comparison and its error return",
			"∞ stands for a number above every version number of the reference (2^63-1 here); compare enters by symbol with the lemma compare.plain.nums3 proved from its body",
			"callees under contract: (*Version).setTail, inc, all, System.MinVersion, newSpan (each verified on its own); (*Version).rebuildExtension is abstracted to its static write set at these call sites; copy, setNum, clearPre are inlined; applications of the symbolic compare are versioned by the part of the heap a static may-read analysis says compare can read",
		},
	}
	propDefs["C09"] = &PropDef{
		ID:   "C09",
		Pkgs: []pkgRef{semver},
		Assume: []string{
			"partial: what a span contains under interval (prerelease-inclusive) matching, and what newSpan builds (unit spans closed, vector spans strictly ordered with the given flags, coinciding ends with an open flag give the empty span); the bound choice of Intersect and two merge steps of canon as site assertions; that canon's merged span adds nothing, canon's skip logic, Union, Empty and normal-mode matching are not covered",
			"compare is used by symbol (its order laws are C01)",
		},
	}
	propDefs["C12"] = &PropDef{
		ID:   "C12",
		Pkgs: []pkgRef{{"util/resolve", "deps.dev/util/resolve"}},
		Assume: []string{
			"partial: the two sort comparators (SortVersions for Maven/PyPI on parsable versions, sortNPMVersions incl. unparsable strings) are strict orders that are total on distinct version strings, hence the sorted list is unique; the filter loop of matchRequirement is under contract but only part of its invariants discharge (soundness/completeness across append are not claimed); latest repositioning is not covered; the non-range npm lookup is covered by site assertions at its returns (not the tags of versions passed over)",
			"semver's Compare is used through the order laws proved under C01 (assumed here: lemma semver.Compare.*); the frame of semver.System.ParseConstraint (modifies) and the reads clause of (*semver.Constraint).Match are obligations of this check, decided by the static may-write / may-read analyses over the code util/resolve is built with; that Match is a deterministic function of what it reads is assumed",
			"permutation invariance follows from uniqueness of a sorted sequence under a strict total order (standard fact about sort.Slice, not re-proved)",
		},
	}
	propDefs["C14"] = &PropDef{
		ID:   "C14",
		Pkgs: []pkgRef{{"util/resolve", "deps.dev/util/resolve"}},
		Assume: []string{
			"partial: AddVersion's postconditions cover the requirement list stored under the key, the known packages, and the replacement of an existing entry (attributes included); that a newly inserted version is present after sorting, the order of the lists and MatchingVersions are not covered",
			"the sort helpers are used through their frame (modifies) contracts, which are themselves checked against the static may-write sets",
		},
	}
	propDefs["C13"] = &PropDef{
		ID:   "C13",
		Pkgs: []pkgRef{{"util/resolve", "deps.dev/util/resolve"}},
		Assume: []string{
			"partial: only the comparators Canon relies on (PackageKey, VersionKey, NodeError, Node) are decided: total orders whose zero is structural equality; canonBFS, renumber, Mapping, Swap/Less and the isomorphism statement itself are not covered",
		},
	}
	propDefs["C01"] = &PropDef{
		ID:       "C01",
		Pkgs:     []pkgRef{semver},
		Replayer: replayC01,
		Assume: []string{
			"domain predicates (plain, gem, ...) describe the versions Parse produces; that the parsers establish them is not proved here",
			"strings are an abstract totally ordered sort (order embedding into the reals) with length and byte functions; lexicographic order is not tied to bytes",
		},
	}
}
