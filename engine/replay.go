package main

import (
	"encoding/json"
	"fmt"
	"os"
	"os/exec"
	"path/filepath"
	"regexp"
	"strings"
	"sync"
	"time"
)

// runOverlayTest injects an in-package test file into pkgDir (through
// go test -overlay, nothing is written to the repository) and runs it.
func runOverlayTest(pkgDir, testName, testSrc string, timeoutS int) (string, bool) {
	dir, _ := os.MkdirTemp(scratch(), "replay")
	src := filepath.Join(dir, "zz_verif_replay_test.go")
	os.WriteFile(src, []byte(testSrc), 0o644)
	ov := map[string]any{"Replace": map[string]string{filepath.Join(pkgDir, "zz_verif_replay_test.go"): src}}
	ovData, _ := json.Marshal(ov)
	ovFile := filepath.Join(dir, "overlay.json")
	os.WriteFile(ovFile, ovData, 0o644)
	cmd := exec.Command("go", "test", "-overlay", ovFile, "-vet=off", "-count=1", fmt.Sprintf("-timeout=%ds", timeoutS), "-run", "^"+testName+"$", "-v", ".")
	cmd.Dir = pkgDir
	cmd.Env = goEnv()
	out, err := cmd.CombinedOutput()
	return string(out), err == nil
}

var reFound = regexp.MustCompile(`(?m)^\s*.*COUNTEREXAMPLE: (.*)$`)

// replayC01 attaches a concrete input to a failed comparator law by a short
// directed search over the real Parse/Compare (it never changes the verdict).
func replayC01(c *checkCtx, r *OblResult) *Replay {
	rp := genericReplay("C01", r)
	if r.Lemma == nil {
		return rp
	}
	law := r.Lemma.Name
	sys := "all"
	switch {
	case strings.Contains(law, ".gem."):
		sys = "RubyGems"
	case strings.Contains(law, ".pypi."):
		sys = "PyPI"
	case strings.Contains(law, ".maven."):
		sys = "Maven"
	case strings.Contains(law, ".semver."), strings.Contains(law, "comparePrerelease"), strings.Contains(law, "compareElem"):
		sys = "semver"
	case strings.Contains(law, "Nuget"):
		sys = "NuGet"
	}
	src := strings.ReplaceAll(c01ReplayTest, "@SYS@", sys)
	pkgDir := repoRoot() + "/util/semver"
	out, ok := runOverlayTest(pkgDir, "TestVerifReplayC01", src, 120)
	testFile := filepath.Join(verifRoot, "replays", "C01_"+sanitize(r.Name)+"_test.go")
	os.MkdirAll(filepath.Dir(testFile), 0o755)
	os.WriteFile(testFile, []byte(src), 0o644)
	rp.TestFile, rp.TestPkgDir, rp.TestName = testFile, "util/semver", "TestVerifReplayC01"
	rp.Command = "govc replay <this file>  (runs the test in-package through go test -overlay)"
	if m := reFound.FindStringSubmatch(out); m != nil && !ok {
		rp.Found = true
		rp.Input = m[1]
		rp.Observed = lastLines(out, 12)
		rp.Explanation = "The obligation is no longer discharged; a directed search over the real Parse/Compare found a concrete triple violating the order laws."
	} else {
		rp.Notes = append(rp.Notes, "directed search over a corpus of version strings found no violating triple: "+lastLines(out, 3))
	}
	return rp
}

func lastLines(s string, n int) string {
	ls := strings.Split(strings.TrimSpace(s), "\n")
	if len(ls) > n {
		ls = ls[len(ls)-n:]
	}
	return strings.Join(ls, "\n")
}

func cmdReplay(path string) int {
	data, err := os.ReadFile(path)
	if err != nil {
		fmt.Fprintln(os.Stderr, err)
		return 2
	}
	var rp Replay
	if err := json.Unmarshal(data, &rp); err != nil {
		fmt.Fprintln(os.Stderr, err)
		return 2
	}
	fmt.Printf("property %s, obligation %s\nstatement: %s\nverifier: %s %s\n", rp.Property, rp.Obligation, rp.Statement, rp.Status, rp.Solver)
	if rp.TestFile == "" {
		fmt.Println("no executable replay attached; solver output:")
		fmt.Println(rp.SolverOut)
		if rp.Found {
			return 1
		}
		return 1
	}
	src, err := os.ReadFile(rp.TestFile)
	if err != nil {
		fmt.Fprintln(os.Stderr, err)
		return 2
	}
	out, ok := runOverlayTest(repoRoot()+"/"+rp.TestPkgDir, rp.TestName, string(src), 300)
	fmt.Println(out)
	if ok {
		fmt.Println("replay: the real code does not (or no longer) fail on the searched inputs")
		return 0
	}
	fmt.Println("replay: reproduced on the real code")
	return 1
}

const c01ReplayTest = `package semver

import "testing"

// Directed search attached to a failed C01 obligation: checks the order laws
// with the real Parse and compare on a corpus of version strings.
func TestVerifReplayC01(t *testing.T) {
	which := "@SYS@"
	corpora := map[System][]string{}
	sem := []string{"0", "1", "1.0", "1.0.0", "1.2", "1.2.3", "1.2.3-0", "1.2.3-1", "1.2.3-01", "1.2.3-a", "1.2.3-A", "1.2.3-a.1", "1.2.3-a.b", "1.2.3-a.1.2", "1.2.3-alpha", "1.2.3-alpha.1", "1.2.3-beta", "1.2.3-rc.1", "1.2.3+b", "1.2.3-a+b", "1.2.4", "1.10.0", "2.0.0", "2.0.0-0", "2.0.0-a.0", "2.0.0-a.00", "0.0.0-0", "1.2.3-1.a", "1.2.3-a.-", "1.2.3--", "1.2.3-Z", "1.2.3-z", "1.2.3-az", "1.2.3-aZ", "1.2.3-a.1.b", "1.0.0-99999999999999999999", "1.0.0-100000000000000000000", "1.0.0-1z", "1.0.0-3000000011", "1.0.0-20000000011", "1.0.0-2147483648", "1.0.0-9"}
	for _, s := range []System{DefaultSystem, Cargo, NPM, NuGet, Composer} {
		corpora[s] = sem
	}
	var gosem []string
	for _, s := range sem {
		gosem = append(gosem, "v"+s)
	}
	corpora[Go] = gosem
	corpora[NuGet] = append(append([]string{}, sem...), "1.2.3.4", "1.2.3.4-a", "1.2.3.0", "1.0.0-ALPHA", "1.0.0-alpha", "1.0.0-Alpha.1", "1.0.0-alpha.01")
	corpora[RubyGems] = []string{"0", "1", "1.0", "1.0.0", "1.0.0.0", "1.2", "1.2.3", "1.2.3.4", "1.0.a", "1.0.a.1", "1.0.a.01", "1.0.a.01.5", "1.0.a.1.5", "1.0.a.1.7", "1.0.a.00", "1.0.a.0", "1.0.a.0.1", "1.0.b", "1.0.a.b", "1.0.a1", "1.0.a01", "1.0.a10", "1.0.a2", "1.0-a", "1.0-1", "1.0.pre", "1.0.pre.1", "1.0.rc1", "1.0.rc.1", "1.0.rc.01", "1.0.0.a", "1.0.1", "1.1", "2", "1.0.a.1.0", "1.0.a.1.00", "1.0.a.1.0.b", "1.0.a.b.1", "1.0.a.b.01", "1.0.a.b.2"}
	corpora[PyPI] = []string{"0", "1", "1.0", "1.0.0", "1.0.1", "1.1", "2", "1.0a1", "1.0a01", "1.0a2", "1.0b1", "1.0rc1", "1.0.dev1", "1.0.dev01", "1.0.post1", "1.0.post01", "1.0a1.dev1", "1.0a1.post1", "1.0.post1.dev1", "1!1.0", "1!0.5", "0!1.0", "1.0+abc", "1.0+abc.1", "1.0+abc.01", "1.0+1", "1.0+01", "1.0+a.b", "1.0+ABC", "1.0+1.a", "1.0+a.1", "1.0.0.0", "1.0alpha1", "1.0c1", "1.0-1", "1.0.post0", "1.0.dev0", "1.0a0", "01.0", "1.00", "1.0+abc.1.0", "1.0+0", "1.0+40000000000000000000000", "1.0+5", "1.0+10", "1.0+18446744073709551616"}
	corpora[Maven] = []string{"0", "1", "1.0", "1.0.0", "1.1", "1.01", "1.01.5", "1.1.5", "1.1.7", "1.0-alpha", "1.0-alpha-1", "1.0-alpha1", "1.0-alpha-01", "1.0-a1", "1.0-beta-1", "1.0-b1", "1.0-milestone-1", "1.0-m1", "1.0-rc1", "1.0-rc-1", "1.0-cr1", "1.0-SNAPSHOT", "1.0-alpha-1-SNAPSHOT", "1.0-ga", "1.0-final", "1.0-release", "1.0-sp", "1.0-sp-1", "1.0-sp1", "1.0-foo", "1.0-foo-1", "1.0-foo1", "1.0-1", "1.0-01", "2", "2.0", "2.1-rc1", "2.1", "1.0-bar", "1.0-xyz-2", "1-alpha", "1-SNAPSHOT", "1.0.0-alpha-1", "1.0.1-beta-2", "1.0-rc-1", "1.0-cr-2", "1.0-rc-2", "1.0-cr-1", "2.1-cr-SNAPSHOT", "2.1-rc-SNAPSHOT", "2.1-cr", "1.0-cr2", "1.0-rc2"}
	names := map[string][]System{
		"all": {DefaultSystem, Cargo, Go, Maven, NPM, NuGet, PyPI, RubyGems, Composer},
		"semver": {DefaultSystem, Cargo, Go, NPM, NuGet, Composer},
		"NuGet": {NuGet}, "RubyGems": {RubyGems}, "PyPI": {PyPI}, "Maven": {Maven},
	}
	sgn := func(x int) int {
		switch {
		case x < 0:
			return -1
		case x > 0:
			return 1
		}
		return 0
	}
	for _, sys := range names[which] {
		var vs []*Version
		var strs []string
		for _, s := range corpora[sys] {
			v, err := sys.Parse(s)
			if err != nil {
				continue
			}
			vs = append(vs, v)
			strs = append(strs, s)
		}
		for i, a := range vs {
			if c := compare(a, a); c != 0 {
				t.Fatalf("COUNTEREXAMPLE: system %v reflexivity: compare(%q,%q)=%d", sys, strs[i], strs[i], c)
			}
			for j, b := range vs {
				ab, ba := compare(a, b), compare(b, a)
				if sgn(ab) != -sgn(ba) {
					t.Fatalf("COUNTEREXAMPLE: system %v antisymmetry: compare(%q,%q)=%d compare(%q,%q)=%d", sys, strs[i], strs[j], ab, strs[j], strs[i], ba)
				}
				for k, c := range vs {
					bc, ac := compare(b, c), compare(a, c)
					if ab <= 0 && bc <= 0 && ac > 0 {
						t.Fatalf("COUNTEREXAMPLE: system %v transitivity: %q <= %q <= %q but compare(%q,%q)=%d", sys, strs[i], strs[j], strs[k], strs[i], strs[k], ac)
					}
					if ab == 0 && sgn(ac) != sgn(bc) {
						t.Fatalf("COUNTEREXAMPLE: system %v congruence: compare(%q,%q)=0 but compare(%q,%q)=%d and compare(%q,%q)=%d", sys, strs[i], strs[j], strs[i], strs[k], ac, strs[j], strs[k], bc)
					}
				}
			}
		}
	}
}
`

// replayC04 attaches a concrete panicking input to a failed C04 obligation by
// running the public entry points of the obligation's package over a corpus
// of hostile strings (directed search; never changes the verdict).
func replayC04(c *checkCtx, r *OblResult) *Replay {
	rp := genericReplay("C04", r)
	if r.Kind == "bounded" {
		parts := strings.SplitN(r.Known, "|", 2)
		if len(parts) == 2 {
			rp.TestFile, rp.TestPkgDir, rp.TestName = parts[0], parts[1], "TestVerifReplayC04"
		}
		rp.Found = true
		rp.Input = r.Detail
		rp.Observed = lastLines(r.Model, 15)
		rp.SolverOut = "bounded stand-in (go test over a corpus), not a solver verdict"
		rp.Explanation = "A public entry point panics or hangs on an input of the corpus."
		r.Known = ""
		return rp
	}
	pkg := "semver"
	if i := strings.Index(r.Func, "."); i > 0 {
		pkg = r.Func[:i]
	}
	var dir, src, test string
	switch pkg {
	case "semver":
		dir, src, test = "util/semver", c04SemverTest, "TestVerifReplayC04"
	case "pypi":
		if strings.Contains(r.Func, "marker") || strings.Contains(r.Func, "Marker") {
			return rp
		}
		dir, src, test = "util/pypi", c04PypiTest, "TestVerifReplayC04"
	default:
		return rp
	}
	seed := fmt.Sprint(c.seed)
	src = strings.ReplaceAll(src, "@SEED@", seed)
	out, ok := runOverlayTest(repoRoot()+"/"+dir, test, src, 180)
	testFile := filepath.Join(verifRoot, "replays", "C04_"+sanitize(r.Name)+"_test.go")
	os.MkdirAll(filepath.Dir(testFile), 0o755)
	os.WriteFile(testFile, []byte(src), 0o644)
	rp.TestFile, rp.TestPkgDir, rp.TestName = testFile, dir, test
	rp.Command = "govc replay <this file>"
	if m := reFound.FindStringSubmatch(out); m != nil && !ok {
		rp.Found = true
		rp.Input = m[1]
		rp.Observed = lastLines(out, 15)
		rp.Explanation = "The obligation is no longer discharged; a directed search over the public entry points found an input that panics or hangs."
	} else if !ok && strings.Contains(out, "panic: test timed out") {
		rp.Found = true
		rp.Input = "an input of the corpus makes an entry point hang (test timed out)"
		rp.Observed = lastLines(out, 15)
	} else {
		rp.Notes = append(rp.Notes, "directed search over the entry points found no panicking input: "+lastLines(out, 3))
	}
	return rp
}

const c04Corpus = `
func verifCorpus(seed int64) []string {
	base := []string{"", " ", "1", "1.0", "1.0.0", "1.2.3-alpha.1+build", "v1.2.3", "1.0.0*a", "1.0.0*", "1.0.0**", "1.0.0*a*", "1.*", "*", "x", "1.x", "^1.2", "~1.2", "~>1.2", ">=1.0 <2.0", ">=1.0,<2.0",
		"1.0 - 2.0", "1.0 || 2.0", "||", "|", "-", "- 1", "1 -", "(,)", "[1.0,2.0)", "[1.0,2.0),[3.0,4.0]", "(,1.0]", "[1.0", "1.0]", "[,]", "{}", "{1.0.0}", "{[1.0.0:2.0.0]}", "{(1.0.0:2.0.0),[3.0.0:∞.∞.∞]}", "{[", "{]}",
		"∞", "∞.∞.∞", "1.∞", "==1.0", "!=1.0", "~=1.0", "==1.*", "!=1.*", "1!1.0", "1!", "!", "1.0a1", "1.0.dev1", "1.0.post1", "1.0+local.1", "1.0+", "1.0-", "1.0.", ".1", "..", "1..0", "1.0-SNAPSHOT", "1.0-alpha-1",
		"1-", "1.a", "1.0.a.01.5", "1.0-rc1", "99999999999999999999", "1.99999999999999999999", "1.0.0-99999999999999999999", "01.0", "1.01", "0", "00", "-1", "+1", "1+", "1-+", "1.0.0-+", "1.0.0+-", "\x00", "\xff", "1.\xff", "1.0\x80", "é", "1.é", "１.０"}
	alpha := []byte("0123456789.*-+~^<>=!|,()[]{}: vxXaAzZ_\x80\xff\xe2\x88\x9e")
	state := uint64(seed)*6364136223846793005 + 1442695040888963407
	next := func() uint64 { state ^= state << 13; state ^= state >> 7; state ^= state << 17; return state }
	out := append([]string{}, base...)
	for n := 0; n < 6000; n++ {
		l := int(next() % 10)
		b := make([]byte, l)
		for i := range b {
			b[i] = alpha[next()%uint64(len(alpha))]
		}
		out = append(out, string(b))
	}
	for _, s := range base {
		for k := 0; k < 3 && len(s) > 0; k++ {
			i := int(next() % uint64(len(s)))
			out = append(out, s[:i]+string(alpha[next()%uint64(len(alpha))])+s[i:], s[:i]+s[i+1:])
		}
	}
	return out
}
`

const c04SemverTest = `package semver

import (
	"fmt"
	"testing"
)
` + c04Corpus + `
func TestVerifReplayC04(t *testing.T) {
	corpus := verifCorpus(@SEED@)
	systems := []System{DefaultSystem, Cargo, Go, Maven, NPM, NuGet, PyPI, RubyGems, Composer}
	try := func(what string, f func()) {
		defer func() {
			if r := recover(); r != nil {
				t.Fatalf("COUNTEREXAMPLE: %s panics: %v", what, r)
			}
		}()
		f()
	}
	for _, sys := range systems {
		var parsed []*Version
		for _, s := range corpus {
			s, sys := s, sys
			try(fmt.Sprintf("%v.Parse(%q)", sys, s), func() {
				if v, err := sys.Parse(s); err == nil {
					_ = v.String()
					_ = v.Canon(true)
					_ = v.IsPrerelease()
					if len(parsed) < 200 {
						parsed = append(parsed, v)
					}
				}
			})
			try(fmt.Sprintf("%v.ParseConstraint(%q)", sys, s), func() {
				if c, err := sys.ParseConstraint(s); err == nil {
					_ = c.String()
					_ = c.Set().String()
					for _, v := range parsed[:min(len(parsed), 20)] {
						_ = c.MatchVersion(v)
						_ = c.MatchVersionPrerelease(v)
					}
					_ = c.Match("1.0.0")
				}
			})
			try(fmt.Sprintf("%v.ParseSetConstraint(%q)", sys, s), func() {
				if c, err := sys.ParseSetConstraint(s); err == nil {
					_ = c.String()
				}
			})
			try(fmt.Sprintf("%v.Compare(%q, 1.0.0)", sys, s), func() { _ = sys.Compare(s, "1.0.0"); _ = sys.Compare("1.0.0", s) })
			try(fmt.Sprintf("%v.Difference(%q, 1.0.0)", sys, s), func() { _, _, _ = sys.Difference(s, "1.0.0") })
		}
		for i, a := range parsed {
			for _, b := range parsed[:min(len(parsed), 40)] {
				a, b := a, b
				try(fmt.Sprintf("%v compare(%q,%q)", sys, a.String(), b.String()), func() { _ = a.Compare(b); _, _ = a.Difference(b) })
			}
			_ = i
		}
	}
}
`

const c04PypiTest = `package pypi

import (
	"fmt"
	"testing"
)
` + c04Corpus + `
func TestVerifReplayC04(t *testing.T) {
	corpus := verifCorpus(@SEED@)
	extra := []string{"a", "a[b]", "a[b,c]>=1.0", "a (>=1.0)", "a>=1.0; python_version<'3'", "a;", "a[", "a]", "a[]", "a (", "a )", "A_b.c", "-", "a--b", "a;;", "a ; extra == 'x'", "a@http://x", "a @ file:///x ; os_name=='nt'"}
	// grammar product: name x extras x space x specifier x space x marker
	for _, name := range []string{"a", "A.b_c-d", ""} {
		for _, ex := range []string{"", "[]", "[x]", "[x, y]", "[", "[x"} {
			for _, sp1 := range []string{"", " ", "\t"} {
				for _, spec := range []string{"", ">=1.0", "(>=1.0)", "()", "(", ")", "==1.*", ">=1,!=2", "~=1"} {
					for _, sp2 := range []string{"", " "} {
						for _, mk := range []string{"", ";", "; extra == 'x'", ";python_version<'3'", "; "} {
							extra = append(extra, name+ex+sp1+spec+sp2+mk)
						}
					}
				}
			}
		}
	}
	try := func(what string, f func()) {
		defer func() {
			if r := recover(); r != nil {
				t.Fatalf("COUNTEREXAMPLE: %s panics: %v", what, r)
			}
		}()
		f()
	}
	for _, s := range append(corpus, extra...) {
		s := s
		try(fmt.Sprintf("ParseDependency(%q)", s), func() { _, _ = ParseDependency(s) })
		try(fmt.Sprintf("CanonPackageName(%q)", s), func() { _ = CanonPackageName(s) })
		try(fmt.Sprintf("CanonVersion(%q)", s), func() { _ = CanonVersion(s) })
	}
}
`

// replayC05 attaches a concrete observation to a failed frame obligation:
// resolve over the repository's own test universes with a plain LocalClient
// and compare what the client reports before and after.
func replayC05(c *checkCtx, r *OblResult) *Replay {
	rp := genericReplay("C05", r)
	var dir, src string
	switch {
	case strings.HasPrefix(r.Func, "maven.") || strings.HasPrefix(r.Func, "resolve.SortVersions"):
		dir, src = "util/resolve/maven", c05Test("maven", "Maven")
	case strings.HasPrefix(r.Func, "pypi."):
		dir, src = "util/resolve/pypi", c05Test("pypi", "PyPI")
	case strings.HasPrefix(r.Func, "npm.") || strings.HasPrefix(r.Func, "resolve."):
		dir, src = "util/resolve/npm", c05Test("npm", "NPM")
	default:
		return rp
	}
	c05Mu.Lock()
	res, done := c05Cache[dir]
	if !done {
		o, k := runOverlayTest(repoRoot()+"/"+dir, "TestVerifReplayC05", src, 120)
		res = c05Res{o, k}
		c05Cache[dir] = res
	}
	c05Mu.Unlock()
	out, ok := res.out, res.ok
	testFile := filepath.Join(verifRoot, "replays", "C05_"+sanitize(r.Name)+"_test.go")
	os.MkdirAll(filepath.Dir(testFile), 0o755)
	os.WriteFile(testFile, []byte(src), 0o644)
	rp.TestFile, rp.TestPkgDir, rp.TestName = testFile, dir, "TestVerifReplayC05"
	rp.Command = "govc replay <this file>"
	if m := reFound.FindStringSubmatch(out); m != nil && !ok {
		rp.Found = true
		rp.Input = m[1]
		rp.Observed = lastLines(out, 12)
		rp.Explanation = "The frame obligation fails and resolving over the repository's own test universes changes what the client reports afterwards."
	} else {
		rp.Notes = append(rp.Notes, "resolving the repository's test universes did not change the client: "+lastLines(out, 3))
	}
	return rp
}

func c05Test(pkg, sys string) string {
	return strings.NewReplacer("@PKG@", pkg, "@SYS@", sys).Replace(c05TestTmpl)
}

const c05TestTmpl = `package @PKG@

import (
	"context"
	"fmt"
	"os"
	"path/filepath"
	"strings"
	"testing"

	"deps.dev/util/resolve"
	"deps.dev/util/resolve/schema"
)

func verifSnapshot(lc *resolve.LocalClient) string {
	var b strings.Builder
	var pks []resolve.PackageKey
	for pk := range lc.PackageVersions {
		pks = append(pks, pk)
	}
	// deterministic order
	for i := range pks {
		for j := i + 1; j < len(pks); j++ {
			if pks[j].Compare(pks[i]) < 0 {
				pks[i], pks[j] = pks[j], pks[i]
			}
		}
	}
	ctx := context.Background()
	for _, pk := range pks {
		vs, _ := lc.Versions(ctx, pk)
		fmt.Fprintf(&b, "%v:", pk)
		for _, v := range vs {
			fmt.Fprintf(&b, " %s", v.Version)
			rs, _ := lc.Requirements(ctx, v.VersionKey)
			fmt.Fprintf(&b, "%v", rs)
		}
		b.WriteString("\n")
	}
	return b.String()
}

func TestVerifReplayC05(t *testing.T) {
	files, _ := filepath.Glob("testdata/*")
	more, _ := filepath.Glob("testdata/*/*")
	files = append(files, more...)
	n := 0
	for _, f := range files {
		data, err := os.ReadFile(f)
		if err != nil || !strings.Contains(string(data), "\n") {
			continue
		}
		// universe blocks of the repository's own test data: "-- Universe <name>" ... "-- END"
		lines := strings.Split(string(data), "\n")
		for li := 0; li < len(lines); li++ {
			if !strings.HasPrefix(strings.ToLower(strings.TrimSpace(lines[li])), "-- universe ") {
				continue
			}
			uname := strings.TrimSpace(lines[li])
			var block []string
			for li++; li < len(lines) && !strings.HasPrefix(strings.ToLower(strings.TrimSpace(lines[li])), "-- end"); li++ {
				block = append(block, lines[li])
			}
			var lc *resolve.LocalClient
			func() {
				defer func() { recover() }()
				s, err := schema.New(strings.Join(block, "\n"), resolve.@SYS@)
				if err == nil {
					lc = s.NewClient()
				}
			}()
			if lc == nil {
				continue
			}
			before := verifSnapshot(lc)
			ctx := context.Background()
			for _, vs := range lc.PackageVersions {
				for _, v := range vs {
					if v.VersionType != resolve.Concrete {
						continue
					}
					func() {
						defer func() { recover() }()
						NewResolver(lc).Resolve(ctx, v.VersionKey)
					}()
					n++
				}
			}
			if after := verifSnapshot(lc); after != before {
				t.Fatalf("COUNTEREXAMPLE: resolving every version of %s in %s changes what the client reports afterwards", uname, f)
			}
		}
	}
	if n == 0 {
		t.Log("no universe could be loaded")
	}
}
`

const c04MarkersTest = `package pypi

import (
	"fmt"
	"testing"
)
` + c04Corpus + `
func TestVerifReplayC04(t *testing.T) {
	corpus := verifCorpus(@SEED@)
	vars := []string{"python_version", "python_full_version", "os_name", "sys_platform", "platform_release", "platform_system", "platform_machine", "platform_python_implementation", "implementation_name", "implementation_version", "extra", "'3.6'", "'abc'", "\"5.0\"", "'1'", "''", "'win32'", "'2.0.post1'", "'x y'"}
	ops := []string{"==", "!=", "<", "<=", ">", ">=", "~=", "===", "in", "not in", "", "="}
	var ms []string
	for _, a := range vars {
		for _, op := range ops {
			for _, b := range vars {
				ms = append(ms, a+" "+op+" "+b, a+op+b)
			}
		}
	}
	base := append([]string{}, ms[:40]...)
	for _, m := range base {
		ms = append(ms, "("+m+")", m+" and "+m, m+" or ("+m+" and "+m+")", "(("+m, m+"))", m+" and", "and "+m, "not "+m)
	}
	ms = append(ms, corpus[:1500]...)
	try := func(what string, f func()) {
		defer func() {
			if r := recover(); r != nil {
				t.Fatalf("COUNTEREXAMPLE: %s panics: %v", what, r)
			}
		}()
		f()
	}
	for _, m := range ms {
		m := m
		try(fmt.Sprintf("parseMarker(%q) / Eval", m), func() {
			mk, err := parseMarker(m)
			if err != nil || mk == nil {
				return
			}
			_ = mk.Eval(nil)
			_ = mk.Eval(map[string]bool{"x": true, "1": true})
			_ = mk.String()
		})
	}
}
`

// boundedC04 runs the directed searches as bounded stand-ins on every run:
// the public entry points over a fixed corpus (labelled bounded, never counted as proved).
func boundedC04(c *checkCtx) []OblResult {
	type bt struct{ name, dir, src string }
	seed := fmt.Sprint(c.seed)
	tests := []bt{
		{"bounded:C04.semver entry points over the hostile corpus (9 systems; Parse, ParseConstraint, ParseSetConstraint, Compare, Difference, Match)", "util/semver", c04SemverTest},
		{"bounded:C04.pypi ParseDependency/CanonPackageName/CanonVersion over the hostile corpus and a grammar product", "util/pypi", c04PypiTest},
		{"bounded:C04.pypi markers parseMarker+Eval over operator/variable products and the hostile corpus", "util/resolve/pypi", c04MarkersTest},
	}
	out := make([]OblResult, len(tests))
	var wg sync.WaitGroup
	for i, t := range tests {
		wg.Add(1)
		go func(i int, t bt) {
			defer wg.Done()
			src := strings.ReplaceAll(t.src, "@SEED@", seed)
			start := time.Now()
			o, ok := runOverlayTest(repoRoot()+"/"+t.dir, "TestVerifReplayC04", src, 120)
			r := OblResult{Name: t.name, Kind: "bounded", Func: "", Site: "no panic and no hang on the corpus (120 s limit)", Solver: "go test (bounded stand-in)", Secs: time.Since(start).Seconds(), Order: i}
			switch {
			case ok:
				r.Status = "proved"
			default:
				r.Status = "failed"
				if m := reFound.FindStringSubmatch(o); m != nil {
					r.Detail = m[1]
				} else {
					r.Detail = lastLines(o, 4)
				}
				r.Model = o
				testFile := filepath.Join(verifRoot, "replays", "C04_bounded_"+fmt.Sprint(i)+"_test.go")
				os.MkdirAll(filepath.Dir(testFile), 0o755)
				os.WriteFile(testFile, []byte(src), 0o644)
				r.Query = ""
				r.Known = testFile + "|" + t.dir
			}
			out[i] = r
		}(i, t)
	}
	wg.Wait()
	return out
}

type c05Res struct {
	out string
	ok  bool
}

var c05Cache = map[string]c05Res{}
var c05Mu sync.Mutex
