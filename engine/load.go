package main

import (
	"fmt"
	"go/ast"
	"go/token"
	"go/types"
	"os"
	"sort"
	"strings"
	"sync"

	"golang.org/x/tools/go/packages"
	"golang.org/x/tools/go/ssa"
	"golang.org/x/tools/go/ssa/ssautil"
)

// Prog is one loaded module of /repo: typed syntax and SSA built from the
// working tree on every run (default build tags, i.e. exactly the files that
// `go build` compiles).
type Prog struct {
	Dir   string
	Fset  *token.FileSet
	SSA   *ssa.Program
	Pkgs  map[string]*ssa.Package // by import path
	PPkgs map[string]*packages.Package
	// function index: "pkgname.Func", "pkgname.(*T).M", "pkgname.T.M", "pkgname.Func$1"
	Funcs map[string]*ssa.Function

	contOnce sync.Once
	cont     map[string][]string
}

func repoRoot() string {
	if r := os.Getenv("GOVC_REPO"); r != "" {
		return r
	}
	return "/repo"
}

func goEnv() []string {
	env := os.Environ()
	env = append(env, "GOFLAGS=-mod=mod", "GOPROXY=off", "GOSUMDB=off", "GOTOOLCHAIN=local", "CGO_ENABLED=0")
	return env
}

// LoadModule loads all packages matching patterns in module directory dir
// (relative to the repository root).
func LoadModule(rel string, patterns ...string) (*Prog, error) {
	dir := repoRoot() + "/" + rel
	fset := token.NewFileSet()
	cfg := &packages.Config{
		Mode:  packages.LoadAllSyntax,
		Dir:   dir,
		Env:   goEnv(),
		Fset:  fset,
		Tests: false,
	}
	if len(patterns) == 0 {
		patterns = []string{"./..."}
	}
	initial, err := packages.Load(cfg, patterns...)
	if err != nil {
		return nil, err
	}
	var errs []string
	packages.Visit(initial, nil, func(p *packages.Package) {
		for _, e := range p.Errors {
			errs = append(errs, e.Error())
		}
	})
	if len(errs) > 0 {
		return nil, fmt.Errorf("load errors in %s: %s", rel, strings.Join(errs, "; "))
	}
	prog, pkgs := ssautil.AllPackages(initial, ssa.InstantiateGenerics|ssa.GlobalDebug)
	prog.Build()
	p := &Prog{Dir: dir, Fset: fset, SSA: prog, Pkgs: map[string]*ssa.Package{}, PPkgs: map[string]*packages.Package{}, Funcs: map[string]*ssa.Function{}}
	for _, sp := range pkgs {
		if sp != nil {
			p.Pkgs[sp.Pkg.Path()] = sp
		}
	}
	packages.Visit(initial, nil, func(pp *packages.Package) { p.PPkgs[pp.PkgPath] = pp })
	for fn := range ssautil.AllFunctions(prog) {
		if fn.Pkg == nil && fn.Origin() == nil {
			// synthetic wrappers etc.
		}
		p.Funcs[FuncName(fn)] = fn
	}
	return p, nil
}

// FuncName is the stable name used in contracts and obligation names:
// pkg.Func, pkg.(*T).M, pkg.T.M, pkg.Func$1.
func FuncName(fn *ssa.Function) string {
	pkgname := ""
	if fn.Pkg != nil {
		pkgname = fn.Pkg.Pkg.Name()
	} else if fn.Object() != nil && fn.Object().Pkg() != nil {
		pkgname = fn.Object().Pkg().Name()
	} else if fn.Parent() != nil {
		return FuncName(fn.Parent()) + "$" + strings.TrimPrefix(fn.Name(), fn.Parent().Name()+"$")
	}
	if fn.Parent() != nil {
		return FuncName(fn.Parent()) + "$" + strings.TrimPrefix(fn.Name(), fn.Parent().Name()+"$")
	}
	if recv := fn.Signature.Recv(); recv != nil {
		t := recv.Type()
		star := ""
		if pt, ok := t.(*types.Pointer); ok {
			t = pt.Elem()
			star = "*"
		}
		tn := types.TypeString(t, func(*types.Package) string { return "" })
		if star != "" {
			return pkgname + ".(*" + tn + ")." + fn.Name()
		}
		return pkgname + "." + tn + "." + fn.Name()
	}
	return pkgname + "." + fn.Name()
}

// FuncsInFile lists functions (incl. closures) of package path whose
// position lies in one of the given base file names; empty files = all.
func (p *Prog) FuncsOfPackage(path string, files ...string) []*ssa.Function {
	var out []*ssa.Function
	want := map[string]bool{}
	for _, f := range files {
		want[f] = true
	}
	for _, fn := range p.Funcs {
		if fn.Pkg == nil || fn.Pkg.Pkg.Path() != path || fn.Blocks == nil {
			continue
		}
		if fn.Synthetic != "" && fn.Parent() == nil {
			continue
		}
		if len(want) > 0 {
			pos := p.Fset.Position(fn.Pos())
			base := pos.Filename[strings.LastIndex(pos.Filename, "/")+1:]
			if !want[base] {
				continue
			}
		}
		out = append(out, fn)
	}
	sort.Slice(out, func(i, j int) bool { return FuncName(out[i]) < FuncName(out[j]) })
	return out
}

func (p *Prog) Func(name string) *ssa.Function { return p.Funcs[name] }

// SourceOf returns the source text of a node, normalised to one line.
func (p *Prog) SourceOf(pkgPath string, n ast.Node) string {
	if n == nil || !n.Pos().IsValid() {
		return ""
	}
	pos, end := p.Fset.Position(n.Pos()), p.Fset.Position(n.End())
	data, err := os.ReadFile(pos.Filename)
	if err != nil || end.Offset > len(data) {
		return ""
	}
	return strings.Join(strings.Fields(string(data[pos.Offset:end.Offset])), " ")
}

// lineText returns the trimmed source line at pos.
func (p *Prog) lineText(pos token.Pos) string {
	if !pos.IsValid() {
		return ""
	}
	ps := p.Fset.Position(pos)
	data, err := os.ReadFile(ps.Filename)
	if err != nil {
		return ""
	}
	lines := strings.Split(string(data), "\n")
	if ps.Line-1 < len(lines) {
		return strings.TrimSpace(lines[ps.Line-1])
	}
	return ""
}

// lineOrdinal says which line this is (1-based) among the source lines of fn
// that contain text, counted from the start of the function; 0 if none.
func (p *Prog) lineOrdinal(fn *ssa.Function, pos token.Pos, text string) int {
	for fn.Parent() != nil && fn.Syntax() == nil {
		fn = fn.Parent()
	}
	syn := fn.Syntax()
	if syn == nil || !pos.IsValid() {
		return 0
	}
	ps := p.Fset.Position(pos)
	start := p.Fset.Position(syn.Pos())
	data, err := os.ReadFile(ps.Filename)
	if err != nil || start.Filename != ps.Filename {
		return 0
	}
	lines := strings.Split(string(data), "\n")
	n := 0
	for l := start.Line; l <= ps.Line && l-1 < len(lines); l++ {
		if strings.Contains(strings.TrimSpace(lines[l-1]), text) {
			n++
		}
	}
	return n
}
