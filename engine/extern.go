package main

import (
	"fmt"
	"go/types"

	"golang.org/x/tools/go/ssa"
)

// externModels are the assumed contracts of library functions (DESIGN §4.3).
// Each is listed in the evidence of every check that used it.
var externModels = map[string]func(x *X, f *ssa.Function, args []Val) Val{}

const errTag = "999983" // dynamic type tag of library error values

func init() {
	externModels["strings.Compare"] = func(x *X, f *ssa.Function, args []Val) Val {
		a, b := args[0].(S).T, args[1].(S).T
		return S{x.define("scmp", SInt, fmt.Sprintf("(ite (< %s %s) (- 1) (ite (> %s %s) 1 0))", a, b, a, b)), SInt}
	}
	parseInt := func(name string, signed bool) func(x *X, f *ssa.Function, args []Val) Val {
		return func(x *X, f *ssa.Function, args []Val) Val {
			s, base, bits := args[0].(S).T, args[1].(S).T, args[2].(S).T
			x.sc.Declare(name+".ok", []string{SStr, SInt, SInt}, SBool)
			x.sc.Declare(name+".val", []string{SStr, SInt, SInt}, SInt)
			x.sc.Declare(name+".err", []string{SStr, SInt, SInt}, SInt)
			ok := x.define("pok", SBool, app(name+".ok", s, base, bits))
			val := x.define("pval", SInt, app(name+".val", s, base, bits))
			// range facts by bit size
			if signed {
				x.assume(fmt.Sprintf("(=> %s (and (<= (- 9223372036854775808) %s) (<= %s 9223372036854775807)))", ok, val, val))
				x.assume(fmt.Sprintf("(=> (and %s (= %s 32)) (and (<= (- 2147483648) %s) (<= %s 2147483647)))", ok, bits, val, val))
			} else {
				x.assume(fmt.Sprintf("(=> %s (and (<= 0 %s) (<= %s 18446744073709551615)))", ok, val, val))
				x.assume(fmt.Sprintf("(=> (and %s (= %s 32)) (<= %s 4294967295))", ok, bits, val))
			}
			x.assume(fmt.Sprintf("(=> %s (> (gs.len %s) 0))", ok, s))
			// on failure the value is unspecified here (Go returns 0 or a clamp); callers in scope only use it when err == nil
			errRef := app(name+".err", s, base, bits)
			return Tup{E: []Val{S{val, SInt}, Iface{ite(ok, "0", errTag), errRef}}}
		}
	}
	externModels["strconv.ParseInt"] = parseInt("strconv.ParseInt", true)
	externModels["strconv.ParseUint"] = parseInt("strconv.ParseUint", false)
	externModels["strconv.Atoi"] = func(x *X, f *ssa.Function, args []Val) Val {
		return externModels["strconv.ParseInt"](x, f, []Val{args[0], S{"10", SInt}, S{"0", SInt}})
	}
	strFn := func(sym string, lenPreserved bool) func(x *X, f *ssa.Function, args []Val) Val {
		return func(x *X, f *ssa.Function, args []Val) Val {
			x.sc.Declare(sym, []string{SStr}, SStr)
			r := x.define("sf", SStr, app(sym, args[0].(S).T))
			if lenPreserved {
				x.assume(fmt.Sprintf("(= (gs.len %s) (gs.len %s))", r, args[0].(S).T))
			} else {
				x.assume(fmt.Sprintf("(<= (gs.len %s) (gs.len %s))", r, args[0].(S).T))
			}
			return S{r, SStr}
		}
	}
	externModels["strings.ToLower"] = strFn("strings.ToLower", false) // length preserved for ASCII only
	externModels["strings.ToUpper"] = strFn("strings.ToUpper", false)
	externModels["strings.TrimSpace"] = strFn("strings.TrimSpace", false)
	boolFn2 := func(sym string) func(x *X, f *ssa.Function, args []Val) Val {
		return func(x *X, f *ssa.Function, args []Val) Val {
			x.sc.Declare(sym, []string{SStr, SStr}, SBool)
			return S{app(sym, args[0].(S).T, args[1].(S).T), SBool}
		}
	}
	externModels["strings.HasPrefix"] = boolFn2("strings.HasPrefix")
	externModels["strings.HasSuffix"] = boolFn2("strings.HasSuffix")
	externModels["strings.Contains"] = boolFn2("strings.Contains")
	externModels["strings.ContainsAny"] = boolFn2("strings.ContainsAny")
	externModels["strings.EqualFold"] = boolFn2("strings.EqualFold")
	intFn2 := func(sym string) func(x *X, f *ssa.Function, args []Val) Val {
		return func(x *X, f *ssa.Function, args []Val) Val {
			x.sc.Declare(sym, []string{SStr, SStr}, SInt)
			r := x.define("ix", SInt, app(sym, args[0].(S).T, args[1].(S).T))
			x.assume(fmt.Sprintf("(and (<= (- 1) %s) (<= %s (gs.len %s)))", r, r, args[0].(S).T))
			// a match leaves room for the pattern
			x.assume(fmt.Sprintf("(=> (>= %s 0) (<= (+ %s (gs.len %s)) (gs.len %s)))", r, r, args[1].(S).T, args[0].(S).T))
			return S{r, SInt}
		}
	}
	externModels["strings.Index"] = intFn2("strings.Index")
	externModels["strings.LastIndex"] = intFn2("strings.LastIndex")
	idxAny := func(sym string) func(x *X, f *ssa.Function, args []Val) Val {
		return func(x *X, f *ssa.Function, args []Val) Val {
			x.sc.Declare(sym, []string{SStr, SStr}, SInt)
			r := x.define("ix", SInt, app(sym, args[0].(S).T, args[1].(S).T))
			x.assume(fmt.Sprintf("(and (<= (- 1) %s) (< %s (gs.len %s)))", r, r, args[0].(S).T))
			return S{r, SInt}
		}
	}
	externModels["strings.IndexAny"] = idxAny("strings.IndexAny")
	externModels["strings.LastIndexAny"] = idxAny("strings.LastIndexAny")
	externModels["strings.IndexByte"] = func(x *X, f *ssa.Function, args []Val) Val {
		x.sc.Declare("strings.IndexByte", []string{SStr, SInt}, SInt)
		r := x.define("ix", SInt, app("strings.IndexByte", args[0].(S).T, args[1].(S).T))
		x.assume(fmt.Sprintf("(and (<= (- 1) %s) (< %s (gs.len %s)))", r, r, args[0].(S).T))
		x.assume(fmt.Sprintf("(=> (>= %s 0) (= (gs.at %s %s) %s))", r, args[0].(S).T, r, args[1].(S).T))
		return S{r, SInt}
	}
	externModels["strings.IndexRune"] = func(x *X, f *ssa.Function, args []Val) Val {
		x.sc.Declare("strings.IndexRune", []string{SStr, SInt}, SInt)
		r := x.define("ix", SInt, app("strings.IndexRune", args[0].(S).T, args[1].(S).T))
		x.assume(fmt.Sprintf("(and (<= (- 1) %s) (< %s (gs.len %s)))", r, r, args[0].(S).T))
		return S{r, SInt}
	}
	externModels["strings.LastIndexByte"] = externModels["strings.IndexByte"]
	externModels["strings.ContainsRune"] = func(x *X, f *ssa.Function, args []Val) Val {
		x.sc.Declare("strings.ContainsRune", []string{SStr, SInt}, SBool)
		return S{app("strings.ContainsRune", args[0].(S).T, args[1].(S).T), SBool}
	}
	externModels["unicode/utf8.DecodeRuneInString"] = func(x *X, f *ssa.Function, args []Val) Val {
		s := args[0].(S).T
		x.sc.Declare("utf8.rune", []string{SStr}, SInt)
		x.sc.Declare("utf8.width", []string{SStr}, SInt)
		r := x.define("rune", SInt, app("utf8.rune", s))
		w := x.define("width", SInt, app("utf8.width", s))
		// empty: (RuneError, 0); ASCII lead byte: (byte, 1); otherwise rune >= 0x80 or RuneError, width 1..4, within the string
		x.assume(fmt.Sprintf("(=> (= (gs.len %s) 0) (and (= %s 65533) (= %s 0)))", s, r, w))
		x.assume(fmt.Sprintf("(=> (and (> (gs.len %s) 0) (< (gs.at %s 0) 128)) (and (= %s (gs.at %s 0)) (= %s 1)))", s, s, r, s, w))
		x.assume(fmt.Sprintf("(=> (and (> (gs.len %s) 0) (>= (gs.at %s 0) 128)) (and (>= %s 128) (<= %s 1114111) (<= 1 %s) (<= %s 4) (<= %s (gs.len %s))))", s, s, r, r, w, w, w, s))
		return Tup{E: []Val{S{r, SInt}, S{w, SInt}}}
	}
	externModels["math/bits.TrailingZeros64"] = func(x *X, f *ssa.Function, args []Val) Val {
		x.bvAxioms()
		a := args[0].(S).T
		return S{x.define("tz", SInt, fmt.Sprintf("(ite (= %s 0) 64 (bv.tz %s))", a, a)), SInt}
	}
	errNew := func(x *X, f *ssa.Function, args []Val) Val {
		if x.sc.paramName != "" {
			return Iface{errTag, x.fresh("err", SInt)}
		}
		return Iface{errTag, x.newRef("err")}
	}
	externModels["errors.New"] = errNew
	externModels["fmt.Errorf"] = errNew
	externModels["fmt.Sprintf"] = func(x *X, f *ssa.Function, args []Val) Val { return S{x.fresh("sprintf", SStr), SStr} }
	externModels["fmt.Sprint"] = externModels["fmt.Sprintf"]
	externModels["strconv.Itoa"] = func(x *X, f *ssa.Function, args []Val) Val {
		x.sc.Declare("strconv.Itoa", []string{SInt}, SStr)
		r := app("strconv.Itoa", args[0].(S).T)
		x.assume(fmt.Sprintf("(> (gs.len %s) 0)", r))
		return S{r, SStr}
	}
	for _, n := range []string{"(*sync.Mutex).Lock", "(*sync.Mutex).Unlock", "(*sync.RWMutex).Lock", "(*sync.RWMutex).Unlock", "(*sync.RWMutex).RLock", "(*sync.RWMutex).RUnlock"} {
		externModels[n] = func(x *X, f *ssa.Function, args []Val) Val { return Tup{} }
	}
}

// ---- bytes.Buffer / strings.Builder as ghost byte sequences ----

func bufLoc(ref string) (lenL, byteL loc) {
	return loc{key: "X:buffer#len", idx: []string{ref}}, loc{key: "X:buffer#byte", idx: []string{ref, "0"}}
}

func (x *X) bufLen(ref string) string {
	l, _ := bufLoc(ref)
	n := x.readLeaf(l, "", SInt)
	x.assume("(>= " + n + " 0)")
	return n
}

func (x *X) bufAt(ref, i string) string {
	_, b := bufLoc(ref)
	b.idx[1] = i
	return x.readLeaf(b, "", SInt)
}

func bufRef(v Val) string {
	p, ok := v.(Ptr)
	if !ok || p.Kind != pObj || len(p.Path) != 0 {
		unsup("buffer receiver is not a plain object pointer")
	}
	return p.Obj
}

func init() {
	for _, t := range []string{"(*bytes.Buffer)", "(*strings.Builder)"} {
		externModels[t+".WriteByte"] = func(x *X, f *ssa.Function, args []Val) Val {
			ref := bufRef(args[0])
			n := x.bufLen(ref)
			lenL, byteL := bufLoc(ref)
			byteL.idx[1] = n
			x.writeLeaf(byteL, "", SInt, args[1].(S).T)
			x.writeLeaf(lenL, "", SInt, "(+ "+n+" 1)")
			return Iface{"0", "0"}
		}
		externModels[t+".Len"] = func(x *X, f *ssa.Function, args []Val) Val {
			return S{x.bufLen(bufRef(args[0])), SInt}
		}
		externModels[t+".String"] = func(x *X, f *ssa.Function, args []Val) Val {
			ref := bufRef(args[0])
			n := x.bufLen(ref)
			r := x.fresh("bufstr", SStr)
			x.assumeStr(r)
			x.assume(fmt.Sprintf("(= (gs.len %s) %s)", r, n))
			_, byteL := bufLoc(ref)
			h := x.heapCur(byteL.key, heapSortFor(byteL, SInt))
			x.sc.Assert(fmt.Sprintf("(forall ((i Int)) (! (=> (and (<= 0 i) (< i %s)) (= (gs.at %s i) (select (select %s %s) i))) :pattern ((gs.at %s i))))", n, r, h, ref, r))
			// the same fact, instantiated at the collected points
			x.sc.n++
			fn := fmt.Sprintf("bufstr!%d", x.sc.n)
			x.sc.add(fmt.Sprintf("(define-fun %s ((i Int)) Bool (= (gs.at %s i) (select (select %s %s) i)))", fn, r, h, ref))
			x.quants = append(x.quants, quant{guard: "true", fn: fn, lo: "0", hi: n, line: len(x.sc.lines)})
			return S{r, SStr}
		}
		externWrites[t+".WriteByte"] = func(x *X, w *writeSet, c *ssa.CallCommon) {
			w.keys["X:buffer#len"] = arrSort(SInt)
			w.keys["X:buffer#byte"] = arr2Sort(SInt)
		}
	}
}

var _ = types.Typ
