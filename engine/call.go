package main

import (
	"fmt"
	"go/types"
	"os"
	"regexp"
	"sort"
	"strings"
	"sync"

	"golang.org/x/tools/go/ssa"
)

func isRepoPkg(p *types.Package) bool {
	return p != nil && strings.HasPrefix(p.Path(), "deps.dev/")
}

func (x *X) call(fr *frame, in ssa.Instruction, c *ssa.CallCommon) Val {
	var args []Val
	for _, a := range c.Args {
		args = append(args, x.get(fr, a))
	}
	if b, ok := c.Value.(*ssa.Builtin); ok {
		return x.builtin(fr, in, c, b, args)
	}
	if c.IsInvoke() {
		return x.invoke(fr, in, c, args)
	}
	if f := c.StaticCallee(); f != nil {
		var free []Val
		if mc, ok := c.Value.(*ssa.MakeClosure); ok {
			for _, b := range mc.Bindings {
				free = append(free, x.get(fr, b))
			}
		}
		return x.callStatic(f, args, free, in)
	}
	if clo, ok := x.get(fr, c.Value).(Clo); ok && clo.Fn != nil {
		return x.callStatic(clo.Fn, args, clo.Free, in)
	}
	if cs, ok := x.get(fr, c.Value).(CloSet); ok {
		base := x.st
		var es []edge
		var vals []Val
		var conds []string
		prior := "true"
		for _, a := range cs.Alts {
			if a.C.Fn == nil {
				unsup("call of possibly nil function value")
			}
			cnd := and(prior, a.Cond)
			prior = and(prior, not(a.Cond))
			st := base.clone()
			st.cond = x.define("fc", SBool, and(base.cond, cnd))
			x.st = st
			vals = append(vals, x.callStatic(a.C.Fn, args, a.C.Free, in))
			conds = append(conds, cnd)
			es = append(es, edge{st: x.st})
		}
		res := vals[len(vals)-1]
		for i := len(vals) - 2; i >= 0; i-- {
			res = x.mergeVals(conds[i], vals[i], res)
		}
		st := x.mergeEdges(es)
		if st == nil {
			st = base.clone()
			st.cond = "false"
		}
		x.st = st
		return x.nameVal("fcall", res)
	}
	unsup("dynamic call of %s", c.Value)
	return nil
}

func resultType(sig *types.Signature) types.Type {
	switch sig.Results().Len() {
	case 0:
		return types.NewTuple()
	case 1:
		return sig.Results().At(0).Type()
	}
	return sig.Results()
}

func (x *X) callStatic(f *ssa.Function, args []Val, free []Val, in ssa.Instruction) Val {
	full := f.String()
	if f.Origin() != nil {
		full = f.Origin().String()
	}
	if m, ok := externModels[full]; ok {
		x.externs[full] = true
		return m(x, f, args)
	}
	name := FuncName(f)
	if x.opaque[name] && !x.unfolding(name) {
		return x.opaqueApp(f, args)
	}
	if x.mode == modeVC && x.specs != nil {
		if fs := x.specs.Funcs[name]; fs != nil && fs.hasContract() && !x.unfolding(name) {
			return x.callContract(f, fs, args, in)
		}
	}
	if f.Blocks != nil && (isRepoPkg(pkgOf(f)) || inlinableStd[full]) {
		if x.mode == modeVC && x.abstractCallee[shortFuncName(name)] {
			if os.Getenv("GOVC_WSDEBUG") != "" {
				w := x.fnWrites(f)
				var ks []string
				for k := range w.keys {
					ks = append(ks, k)
				}
				sort.Strings(ks)
				fmt.Fprintln(os.Stderr, "abstracted", name, "all:", w.all, "alloc:", w.alloc, ks)
			}
			x.externs["call of "+name+" abstracted to its static write set (result and written heap unknown) in "+x.curFn] = true
			x.havocWrites(x.fnWrites(f), "call of "+name+" (abstracted)")
			return x.freshVal(resultType(f.Signature), sanitize(f.Name()))
		}
		if x.mode == modeVC && len(x.stack) >= 4 {
			// deep in the call tree: forget what the callee does (sound: result and written heap unknown)
			x.havocWrites(x.fnWrites(f), "call of "+name+" below the inlining depth")
			return x.freshVal(resultType(f.Signature), sanitize(f.Name()))
		}
		return x.execFunc(f, args, free)
	}
	return x.havocCall(f, args, full)
}

func pkgOf(f *ssa.Function) *types.Package {
	if f.Pkg != nil {
		return f.Pkg.Pkg
	}
	if f.Object() != nil {
		return f.Object().Pkg()
	}
	if f.Parent() != nil {
		return pkgOf(f.Parent())
	}
	if f.Origin() != nil {
		return pkgOf(f.Origin())
	}
	return nil
}

var inlinableStd = map[string]bool{}

// pure standard-library packages: calls neither read nor write the heap the
// engine models (beyond their arguments, which they do not modify).
var purePkgs = map[string]bool{"strings": true, "strconv": true, "unicode": true, "unicode/utf8": true, "errors": true, "fmt": true, "math": true, "math/bits": true, "cmp": true}

func (x *X) havocCall(f *ssa.Function, args []Val, full string) Val {
	p := pkgOf(f)
	pure := p != nil && purePkgs[p.Path()]
	if !pure {
		if x.mode == modeSummary {
			unsup("call of %s, which has no model and may have effects", full)
		}
		x.havocHeap("call of " + full)
	}
	x.externs["havoc result of "+full] = true
	return x.freshVal(resultType(f.Signature), sanitize(f.Name()))
}

// havocHeap forgets everything about the heap (sound treatment of unknown code).
func (x *X) havocHeap(why string) {
	x.logHavoc(".*")
	x.bumpHeapVersion("*")
	for k := range x.st.heap {
		if k == "ALLOC" {
			old := x.st.heap[k]
			n := x.sc.Fresh("alloc", arrSort(SBool))
			x.sc.Assert(fmt.Sprintf("(forall ((r Int)) (! (=> (select %s r) (select %s r)) :pattern ((select %s r))))", old, n, n))
			x.st.heap[k] = n
			continue
		}
		x.st.heap[k] = x.sc.Fresh("hv."+k, x.heapSorts[k])
		x.written[k] = true
	}
	x.assumes = append(x.assumes, "heap havocked: "+why)
}

var unfoldStack []string

func (x *X) unfolding(name string) bool {
	return x.unfold[name]
}

// opaqueApp references a pure function by symbol. Its laws (proved
// separately from its body) are added as axioms when the query is assembled.
func (x *X) opaqueApp(f *ssa.Function, args []Val) Val {
	name := FuncName(f)
	x.usedOpq[name] = f
	var flat []string
	var sorts []string
	for _, a := range args {
		for _, s := range x.flatten(a) {
			flat = append(flat, s.T)
			sorts = append(sorts, s.Sort)
		}
	}
	if x.mode == modeVC && !x.inline {
		// the result may depend on the heap: applications in different versions of the part of the
		// heap the function reads (its `reads` clause; default everything) are unrelated
		var reads []string
		if x.specs != nil {
			if fs := x.specs.Funcs[name]; fs != nil {
				reads = fs.Reads
			}
		}
		if len(reads) == 0 {
			// no clause: what the static may-read analysis finds (nil = the whole heap)
			reads = x.derivedReads(f)
		}
		ver := x.heapVersionFor(reads)
		flat = append(flat, fmt.Sprint(ver))
		sorts = append(sorts, SInt)
		defer x.lawsFor(f, name, ver)
	} else if x.mode == modeVC {
		// inside an axiom generated for a particular heap version (see lawsFor)
		flat = append(flat, fmt.Sprint(x.axiomVer))
		sorts = append(sorts, SInt)
	}
	rt := resultType(f.Signature)
	var outs []S
	i := 0
	var mk func(t types.Type) []S
	mk = func(t types.Type) []S {
		// enumerate result scalars in flatten order using a fresh-value skeleton
		var res []S
		switch kindOf(t) {
		case kTuple:
			tt := t.(*types.Tuple)
			for j := 0; j < tt.Len(); j++ {
				res = append(res, mk(tt.At(j).Type())...)
			}
		case kStruct:
			st := t.Underlying().(*types.Struct)
			for j := 0; j < st.NumFields(); j++ {
				res = append(res, mk(st.Field(j).Type())...)
			}
		case kSlice:
			for j := 0; j < 4; j++ {
				res = append(res, S{"", SInt})
			}
		case kIface:
			res = append(res, S{"", SInt}, S{"", SInt})
		default:
			res = append(res, S{"", x.leafSort(t)})
		}
		return res
	}
	for _, s := range mk(rt) {
		sym := "f$" + sanitize(name)
		if i > 0 {
			sym = fmt.Sprintf("%s.%d", sym, i)
		}
		i++
		x.sc.Declare(sym, sorts, s.Sort)
		outs = append(outs, S{app(sym, flat...), s.Sort})
	}
	if len(outs) == 0 {
		return Tup{}
	}
	v, _ := x.rebuild(rt, outs)
	if kindOf(rt) == kInt {
		x.assumeIntRange(v.(S).T, rt)
	}
	return v
}

// ---- interface method calls ----

func (x *X) invoke(fr *frame, in ssa.Instruction, c *ssa.CallCommon, args []Val) Val {
	recv := x.get(fr, c.Value).(Iface)
	it := c.Value.Type().Underlying().(*types.Interface)
	rt := resultType(c.Method.Type().(*types.Signature))
	closed := !c.Method.Exported() && isRepoPkg(c.Method.Pkg())
	if !closed {
		if fullIs(c.Method, "error", "Error") {
			return x.freshVal(rt, "errstr")
		}
		if x.mode == modeSummary {
			unsup("call of open interface method %s", c.Method.Name())
		}
		x.oblige("nil", x.site(in.Pos(), in.String()), in.Pos(), not(eq(recv.Tag, "0")))
		x.havocHeap("call of interface method " + c.Method.FullName())
		return x.freshVal(rt, c.Method.Name())
	}
	// closed world: the implementations in the declaring package
	var impls []types.Type
	scope := c.Method.Pkg().Scope()
	for _, n := range scope.Names() {
		tn, ok := scope.Lookup(n).(*types.TypeName)
		if !ok || tn.IsAlias() {
			continue
		}
		if _, isIface := tn.Type().Underlying().(*types.Interface); isIface {
			continue
		}
		if types.Implements(tn.Type(), it) {
			impls = append(impls, tn.Type())
		} else if pt := types.NewPointer(tn.Type()); types.Implements(pt, it) {
			impls = append(impls, pt)
		}
	}
	sort.Slice(impls, func(i, j int) bool { return typeKey(impls[i]) < typeKey(impls[j]) })
	base := x.st
	var conds []string
	type outcome struct {
		st  *State
		val Val
	}
	var outs []outcome
	for _, t := range impls {
		tag := fmt.Sprint(x.tags.tagOf(t))
		conds = append(conds, eq(recv.Tag, tag))
	}
	x.oblige("dispatch", x.site(in.Pos(), in.String()), in.Pos(), or(conds...))
	for i, t := range impls {
		m := x.prog.SSA.LookupMethod(t, c.Method.Pkg(), c.Method.Name())
		if m == nil {
			unsup("method %s of %s not found", c.Method.Name(), t)
		}
		st := base.clone()
		st.cond = x.define("dc", SBool, and(base.cond, conds[i]))
		x.st = st
		var rv Val
		if pt, ok := t.(*types.Pointer); ok {
			rv = Ptr{Kind: pObj, Obj: recv.Ref, Root: pt.Elem()}
		} else {
			rv = x.loadAt(loc{key: "B:" + typeKey(t), idx: []string{recv.Ref}}, t)
		}
		val := x.callStatic(m, append([]Val{rv}, args...), nil, in)
		outs = append(outs, outcome{x.st, val})
	}
	if len(outs) == 0 {
		unsup("no implementation of %s", c.Method.FullName())
	}
	var es []edge
	for _, o := range outs {
		es = append(es, edge{st: o.st})
	}
	res := outs[len(outs)-1].val
	for i := len(outs) - 2; i >= 0; i-- {
		res = x.mergeVals(conds[i], outs[i].val, res)
	}
	st := x.mergeEdges(es)
	if st == nil {
		st = base.clone()
		st.cond = "false"
	}
	x.st = st
	return x.nameVal(c.Method.Name(), res)
}

func fullIs(m *types.Func, typ, name string) bool {
	return m.Name() == name && m.Pkg() == nil
}

// ---- builtins ----

func (x *X) builtin(fr *frame, in ssa.Instruction, c *ssa.CallCommon, b *ssa.Builtin, args []Val) Val {
	switch b.Name() {
	case "len":
		switch v := args[0].(type) {
		case Slice:
			return S{v.Len, SInt}
		case S:
			if kindOf(c.Args[0].Type()) == kString {
				return S{"(gs.len " + v.T + ")", SInt}
			}
			if at, ok := c.Args[0].Type().Underlying().(*types.Array); ok {
				return S{fmt.Sprint(at.Len()), SInt}
			}
		case MapV:
			return S{x.mapLen(c.Args[0].Type().Underlying().(*types.Map), v.Ref), SInt}
		case Ptr:
			if pt, ok := c.Args[0].Type().Underlying().(*types.Pointer); ok {
				if at, ok := pt.Elem().Underlying().(*types.Array); ok {
					return S{fmt.Sprint(at.Len()), SInt}
				}
			}
		}
	case "cap":
		if v, ok := args[0].(Slice); ok {
			return S{v.Cap, SInt}
		}
	case "min", "max":
		if kindOf(c.Args[0].Type()) == kInt {
			r := args[0].(S).T
			for _, a := range args[1:] {
				op := "<"
				if b.Name() == "max" {
					op = ">"
				}
				r = fmt.Sprintf("(ite (%s %s %s) %s %s)", op, r, a.(S).T, r, a.(S).T)
			}
			return S{x.define(b.Name(), SInt, r), SInt}
		}
	case "append":
		return x.appendOp(fr, in, c, args)
	case "copy":
		return x.copyOp(fr, in, c, args)
	case "delete":
		mt := c.Args[0].Type().Underlying().(*types.Map)
		m := args[0].(MapV)
		has := x.define("had", SBool, x.mapHas(mt, m.Ref, args[1]))
		n := x.mapLen(mt, m.Ref)
		l := x.mapLoc(mt, m.Ref, args[1])
		// deleting from a nil map is a no-op; has is false there anyway
		x.writeLeaf(l, "#mhas", SBool, "false")
		x.writeLeaf(loc{key: "M:" + typeKey(mt), idx: []string{m.Ref}}, "#mlen", SInt, fmt.Sprintf("(ite %s (- %s 1) %s)", has, n, n))
		return Tup{}
	case "print", "println":
		return Tup{}
	case "ssa:wrapnilchk":
		return args[0]
	}
	unsup("builtin %s on %s", b.Name(), c.Args[0].Type())
	return nil
}

func (x *X) appendOp(fr *frame, in ssa.Instruction, c *ssa.CallCommon, args []Val) Val {
	if x.mode == modeSummary {
		unsup("append in a pure summary")
	}
	return x.appendVC(fr, in, c, args)
}

func (x *X) copyOp(fr *frame, in ssa.Instruction, c *ssa.CallCommon, args []Val) Val {
	if x.mode == modeSummary {
		unsup("copy in a pure summary")
	}
	return x.copyVC(fr, in, c, args)
}

// ---- package-level map literals ----

type mapLit struct {
	keys, vals []*ssa.Const
}

var mapLitCache = map[*ssa.Global]*mapLit{}

// globalMapLit returns the literal contents of a package-level map that is
// initialised by a composite literal and never written afterwards.
func (x *X) globalMapLit(g *ssa.Global) *mapLit {
	cacheMu.Lock()
	defer cacheMu.Unlock()
	if ml, ok := mapLitCache[g]; ok {
		return ml
	}
	mapLitCache[g] = nil
	pkg := g.Pkg
	initFn := pkg.Func("init")
	if initFn == nil {
		return nil
	}
	var mk *ssa.MakeMap
	stores := 0
	for _, fn := range x.prog.Funcs {
		if fn.Pkg != pkg || fn.Blocks == nil {
			continue
		}
		for _, b := range fn.Blocks {
			for _, in := range b.Instrs {
				switch in := in.(type) {
				case *ssa.Store:
					if in.Addr == g {
						stores++
						if m, ok := in.Val.(*ssa.MakeMap); ok && fn == initFn {
							mk = m
						}
					}
				case *ssa.MapUpdate:
					if ld, ok := in.Map.(*ssa.UnOp); ok && ld.X == g {
						return nil
					}
				case *ssa.Call:
					if bi, ok := in.Call.Value.(*ssa.Builtin); ok && bi.Name() == "delete" {
						if ld, ok := in.Call.Args[0].(*ssa.UnOp); ok && ld.X == g {
							return nil
						}
					}
					// the map escaping as an argument would allow writes elsewhere
					for _, a := range in.Call.Args {
						if ld, ok := a.(*ssa.UnOp); ok && ld.X == g {
							if _, isB := in.Call.Value.(*ssa.Builtin); !isB {
								return nil
							}
						}
					}
				}
			}
		}
	}
	if mk == nil || stores != 1 {
		return nil
	}
	ml := &mapLit{}
	for _, ref := range *mk.Referrers() {
		switch r := ref.(type) {
		case *ssa.MapUpdate:
			k, ok1 := r.Key.(*ssa.Const)
			v, ok2 := r.Value.(*ssa.Const)
			if !ok1 || !ok2 {
				return nil
			}
			ml.keys = append(ml.keys, k)
			ml.vals = append(ml.vals, v)
		case *ssa.Store:
		case *ssa.DebugRef:
		default:
			return nil
		}
	}
	mapLitCache[g] = ml
	return ml
}

func (x *X) globalMapLookup(fr *frame, in *ssa.Lookup, mt *types.Map, key Val) Val {
	ld, ok := in.X.(*ssa.UnOp)
	if !ok {
		return nil
	}
	g, ok := ld.X.(*ssa.Global)
	if !ok {
		return nil
	}
	ml := x.globalMapLit(g)
	if ml == nil {
		return nil
	}
	x.externs["package-level map "+g.Name()+" read as its literal (never written outside init: checked)"] = true
	ks, ok := key.(S)
	if !ok {
		return nil
	}
	val := x.zero(mt.Elem())
	has := "false"
	for i := len(ml.keys) - 1; i >= 0; i-- {
		c := eq(ks.T, x.constVal(ml.keys[i]).(S).T)
		val = x.mergeVals(c, x.constVal(ml.vals[i]), val)
		has = or(c, has)
	}
	val = x.nameVal(g.Name(), val)
	if in.CommaOk {
		return Tup{E: []Val{val, S{x.define("has", SBool, has), SBool}}}
	}
	return val
}

var havocSeq int
var havocMu sync.Mutex

func (x *X) logHavoc(pattern string) {
	havocMu.Lock()
	havocSeq++
	id := havocSeq
	havocMu.Unlock()
	x.st.log = append(append([]havocRec(nil), x.st.log...), havocRec{regexp.MustCompile(pattern), id})
}

// globToRegexp turns a modifies entry ("E:resolve.Version", "H:semver.*") into a pattern
// matching the heap keys it covers (the entry itself, its #parts and its .fields).
func globToRegexp(m string) string {
	q := regexp.QuoteMeta(m)
	q = strings.ReplaceAll(q, `\*`, `.*`)
	return "^" + q + "($|[#.].*)"
}

// lawsFor asserts, once per (function, heap version), the exported lemmas and
// the contract of an opaque function, evaluated in the current state: the
// facts hold for applications in this version of the heap.
func (x *X) lawsFor(f *ssa.Function, name string, ver int) {
	if x.specs == nil || x.inline {
		return
	}
	key := fmt.Sprintf("%s@%d", name, ver)
	if x.axDone == nil {
		x.axDone = map[string]bool{}
	}
	if x.axDone[key] {
		return
	}
	x.axDone[key] = true
	save := x.axiomVer
	x.axiomVer = ver
	defer func() { x.axiomVer = save }()
	func() {
		defer func() {
			if r := recover(); r != nil {
				if _, isU := r.(unsupported); !isU {
					panic(r)
				}
			}
		}()
		for _, m := range lemmasAbout(x.specs, name, 1<<30) {
			if len(x.usesOnly) > 0 && !x.usesOnly[m.Name] {
				continue
			}
			mpkg := pkgOf(f)
			if pth, ok := x.specs.ForeignOf[m]; ok {
				mpkg = x.prog.PPkgs[pth].Types
			} else if x.prog.PPkgs[x.specs.PkgPath] != nil && !isForeign(x.specs, m) {
				mpkg = x.prog.PPkgs[x.specs.PkgPath].Types
			}
			if m.Assumed != "" {
				x.externs["assumed lemma "+m.Name+": "+m.Assumed] = true
			}
			for _, ax := range x.axiomsOf(mpkg, m) {
				x.sc.Assert(ax)
			}
		}
		if fs := x.specs.Funcs[name]; fs != nil && len(fs.Ensures) > 0 {
			for _, ax := range x.contractAxioms(pkgOf(f), f, fs) {
				x.sc.Assert(ax)
			}
		}
	}()
}

func isForeign(sp *Specs, l *Lemma) bool {
	_, ok := sp.ForeignOf[l]
	return ok
}

// shortFuncName strips the package qualifier: "semver.(*Version).Canon" -> "(*Version).Canon".
func shortFuncName(name string) string {
	if strings.HasPrefix(name, "(") {
		return name
	}
	if i := strings.Index(name, "."); i >= 0 {
		return name[i+1:]
	}
	return name
}
