package main

import (
	"fmt"
	"go/ast"
	"go/constant"
	"go/parser"
	"go/token"
	"go/types"
	"sort"
	"strconv"
	"strings"

	"golang.org/x/tools/go/ssa"
)

// TV is a symbolic value with its Go type (nil type = untyped constant / nil).
type TV struct {
	V Val
	T types.Type
}

type Env struct {
	vars    map[string]TV
	pkg     *types.Package
	old     *State // state for old(...) in postconditions
	loopOld *State // state on entry of the loop whose invariant is being evaluated (loopframe)
}

func (e *Env) child() *Env {
	n := &Env{vars: map[string]TV{}, pkg: e.pkg, old: e.old, loopOld: e.loopOld}
	for k, v := range e.vars {
		n.vars[k] = v
	}
	return n
}

func (x *X) resolveType(pkg *types.Package, expr string) types.Type {
	tv, err := types.Eval(x.prog.Fset, pkg, token.NoPos, expr)
	if err != nil || tv.Type == nil {
		// names of imported packages live in file scopes: try each file of the package
		if pp := x.prog.PPkgs[pkg.Path()]; pp != nil {
			for _, f := range pp.Syntax {
				if tv2, err2 := types.Eval(x.prog.Fset, pkg, f.End()-1, expr); err2 == nil && tv2.Type != nil {
					return tv2.Type
				}
			}
		}
	}
	if err != nil || tv.Type == nil {
		panic(fmt.Sprintf("contract: cannot resolve type %q in package %s: %v", expr, pkg.Name(), err))
	}
	return tv.Type
}

// evalSpecStr parses and evaluates a spec expression to a Bool term.
func (x *X) evalBool(env *Env, src string) string {
	tv := x.evalSrc(env, src)
	s, ok := tv.V.(S)
	if !ok || s.Sort != SBool {
		panic(fmt.Sprintf("contract: %q is not boolean", src))
	}
	return s.T
}

func (x *X) evalSrc(env *Env, src string) TV {
	e, err := parser.ParseExpr(src)
	if err != nil {
		panic(fmt.Sprintf("contract: cannot parse %q: %v", src, err))
	}
	return x.eval(env, e)
}

var untypedInt = types.Typ[types.UntypedInt]

func (x *X) eval(env *Env, e ast.Expr) TV {
	switch e := e.(type) {
	case *ast.ParenExpr:
		return x.eval(env, e.X)
	case *ast.BasicLit:
		switch e.Kind {
		case token.INT:
			v := constant.MakeFromLiteral(e.Value, token.INT, 0)
			if i, ok := constant.Int64Val(v); ok {
				return TV{S{intLit(i), SInt}, untypedInt}
			}
			u, _ := constant.Uint64Val(v)
			return TV{S{uintLit(u), SInt}, untypedInt}
		case token.CHAR:
			r, _, _, _ := strconv.UnquoteChar(e.Value[1:len(e.Value)-1], '\'')
			return TV{S{fmt.Sprint(int(r)), SInt}, untypedInt}
		case token.STRING:
			s, _ := strconv.Unquote(e.Value)
			return TV{S{x.strLit(s), SStr}, types.Typ[types.String]}
		}
	case *ast.Ident:
		if tv, ok := env.vars[e.Name]; ok {
			return tv
		}
		switch e.Name {
		case "true":
			return TV{S{"true", SBool}, types.Typ[types.Bool]}
		case "false":
			return TV{S{"false", SBool}, types.Typ[types.Bool]}
		case "nil":
			return TV{nil, nil}
		}
		if obj := env.pkg.Scope().Lookup(e.Name); obj != nil {
			switch o := obj.(type) {
			case *types.Const:
				return TV{x.constVal(ssa.NewConst(o.Val(), o.Type())), o.Type()}
			case *types.Var:
				g := x.prog.SSA.Package(env.pkg).Var(e.Name)
				if g != nil {
					return TV{x.load(Ptr{Kind: pGlobal, Glob: g, Root: o.Type()}), o.Type()}
				}
			}
		}
		panic(fmt.Sprintf("contract: unknown identifier %q", e.Name))
	case *ast.UnaryExpr:
		if e.Op == token.AND {
			if id, ok := e.X.(*ast.Ident); ok {
				if tv, ok := env.vars["&"+id.Name]; ok {
					return tv
				}
			}
			panic(fmt.Sprintf("contract: cannot take the address of %s", types.ExprString(e.X)))
		}
		if e.Op == token.NOT {
			x.polarity = -x.polarity
		}
		v := x.eval(env, e.X)
		if e.Op == token.NOT {
			x.polarity = -x.polarity
		}
		switch e.Op {
		case token.NOT:
			return TV{S{not(v.V.(S).T), SBool}, v.T}
		case token.SUB:
			return TV{S{"(- " + v.V.(S).T + ")", SInt}, v.T}
		}
	case *ast.BinaryExpr:
		return x.evalBinary(env, e)
	case *ast.SelectorExpr:
		if id, ok := e.X.(*ast.Ident); ok {
			if _, isVar := env.vars[id.Name]; !isVar {
				// package-qualified constant
				for _, imp := range env.pkg.Imports() {
					if imp.Name() == id.Name {
						if c, ok := imp.Scope().Lookup(e.Sel.Name).(*types.Const); ok {
							return TV{x.constVal(ssa.NewConst(c.Val(), c.Type())), c.Type()}
						}
						if v, ok := imp.Scope().Lookup(e.Sel.Name).(*types.Var); ok {
							if sp := x.prog.SSA.Package(imp); sp != nil {
								if g := sp.Var(e.Sel.Name); g != nil {
									return TV{x.load(x.get(nil, g).(Ptr)), v.Type()}
								}
							}
						}
						panic(fmt.Sprintf("contract: unknown %s.%s", id.Name, e.Sel.Name))
					}
				}
			}
		}
		base := x.eval(env, e.X)
		return x.selectField(base, e.Sel.Name)
	case *ast.IndexExpr:
		base := x.eval(env, e.X)
		idx := x.eval(env, e.Index)
		if it, ok := idx.V.(S); ok {
			x.addPoint(it.T, "idx")
		}
		switch kindOf(base.T) {
		case kSlice:
			el := base.T.Underlying().(*types.Slice).Elem()
			s := base.V.(Slice)
			return TV{x.loadAt(elemLoc(el, s.Arr, "(+ "+s.Off+" "+idx.V.(S).T+")"), el), el}
		case kString:
			return TV{S{"(gs.at " + base.V.(S).T + " " + idx.V.(S).T + ")", SInt}, types.Typ[types.Uint8]}
		case kArray:
			// an array value (of scalars) is an SMT array
			at := base.T.Underlying().(*types.Array)
			if av, ok := base.V.(S); ok {
				es := x.leafSort(at.Elem())
				return TV{S{"(select " + av.T + " " + idx.V.(S).T + ")", es}, at.Elem()}
			}
		case kMap:
			mt := base.T.Underlying().(*types.Map)
			m := base.V.(MapV)
			has := x.mapHas(mt, m.Ref, idx.V)
			v := x.loadAt(x.mapLoc(mt, m.Ref, idx.V), mt.Elem())
			return TV{x.mergeVals(has, v, x.zero(mt.Elem())), mt.Elem()}
		}
		panic(fmt.Sprintf("contract: cannot index %s", base.T))
	case *ast.SliceExpr:
		base := x.eval(env, e.X)
		if kindOf(base.T) == kString {
			sv := base.V.(S).T
			lo, hi := "0", "(gs.len "+sv+")"
			if e.Low != nil {
				lo = x.eval(env, e.Low).V.(S).T
			}
			if e.High != nil {
				hi = x.eval(env, e.High).V.(S).T
			}
			x.noOblig++
			r := x.strSub(sv, lo, hi)
			x.noOblig--
			return TV{S{r, SStr}, base.T}
		}
		if sl, ok := base.V.(Slice); ok && kindOf(base.T) == kSlice && e.Max == nil {
			// s[lo:hi] on a slice: same backing array, shifted offset (as the SSA Slice instruction)
			lo, hi := "0", sl.Len
			if e.Low != nil {
				lo = x.eval(env, e.Low).V.(S).T
			}
			if e.High != nil {
				hi = x.eval(env, e.High).V.(S).T
			}
			return TV{Slice{Arr: sl.Arr, Off: "(+ " + sl.Off + " " + lo + ")", Len: "(- " + hi + " " + lo + ")", Cap: "(- " + sl.Cap + " " + lo + ")"}, base.T}
		}
		panic("contract: slicing is only supported on strings and slices")
	case *ast.TypeAssertExpr:
		base := x.eval(env, e.X)
		t := x.resolveType(env.pkg, types.ExprString(e.Type))
		iv := base.V.(Iface)
		if pt, ok := t.Underlying().(*types.Pointer); ok {
			return TV{Ptr{Kind: pObj, Obj: iv.Ref, Root: pt.Elem()}, t}
		}
		return TV{x.loadAt(loc{key: "B:" + typeKey(t), idx: []string{iv.Ref}}, t), t}
	case *ast.CallExpr:
		return x.evalCall(env, e)
	case *ast.StarExpr:
		base := x.eval(env, e.X)
		p := base.V.(Ptr)
		t := base.T.Underlying().(*types.Pointer).Elem()
		return TV{x.load(p), t}
	}
	panic(fmt.Sprintf("contract: unsupported expression %s", types.ExprString(e)))
}

func (x *X) selectField(base TV, name string) TV {
	t := base.T
	if t == nil {
		panic("contract: selector on untyped value")
	}
	if pt, ok := t.Underlying().(*types.Pointer); ok {
		st, ok := pt.Elem().Underlying().(*types.Struct)
		if !ok {
			panic(fmt.Sprintf("contract: selector %s on %s", name, t))
		}
		for i := 0; i < st.NumFields(); i++ {
			if st.Field(i).Name() == name {
				p := base.V.(Ptr)
				if p.Root == nil {
					p.Root = pt.Elem()
				}
				np := p
				np.Path = append(append([]int(nil), p.Path...), i)
				return TV{x.load(np), st.Field(i).Type()}
			}
		}
		// embedded fields
		for i := 0; i < st.NumFields(); i++ {
			if st.Field(i).Embedded() {
				p := base.V.(Ptr)
				np := p
				np.Path = append(append([]int(nil), p.Path...), i)
				ft := st.Field(i).Type()
				if _, isPtr := ft.Underlying().(*types.Pointer); isPtr {
					return x.selectField(TV{x.load(np), ft}, name)
				}
			}
		}
		panic(fmt.Sprintf("contract: no field %s in %s", name, t))
	}
	if st, ok := t.Underlying().(*types.Struct); ok {
		for i := 0; i < st.NumFields(); i++ {
			if st.Field(i).Name() == name {
				return TV{base.V.(Tup).E[i], st.Field(i).Type()}
			}
		}
		for i := 0; i < st.NumFields(); i++ {
			if st.Field(i).Embedded() {
				if _, ok := st.Field(i).Type().Underlying().(*types.Struct); ok {
					if hasField(st.Field(i).Type(), name) {
						return x.selectField(TV{base.V.(Tup).E[i], st.Field(i).Type()}, name)
					}
				}
			}
		}
	}
	panic(fmt.Sprintf("contract: no field %s in %s", name, t))
}

func hasField(t types.Type, name string) bool {
	st, ok := t.Underlying().(*types.Struct)
	if !ok {
		return false
	}
	for i := 0; i < st.NumFields(); i++ {
		if st.Field(i).Name() == name {
			return true
		}
		if st.Field(i).Embedded() && hasField(st.Field(i).Type(), name) {
			return true
		}
	}
	return false
}

func (x *X) coerceNil(a, b TV) (TV, TV) {
	if a.V == nil && a.T == nil && b.T != nil {
		a = TV{x.zero(b.T), b.T}
	}
	if b.V == nil && b.T == nil && a.T != nil {
		b = TV{x.zero(a.T), a.T}
	}
	return a, b
}

func (x *X) evalBinary(env *Env, e *ast.BinaryExpr) TV {
	boolT := types.Typ[types.Bool]
	switch e.Op {
	case token.LAND:
		a := x.eval(env, e.X)
		b := x.eval(env, e.Y)
		return TV{S{and(a.V.(S).T, b.V.(S).T), SBool}, boolT}
	case token.LOR:
		a := x.eval(env, e.X)
		b := x.eval(env, e.Y)
		return TV{S{or(a.V.(S).T, b.V.(S).T), SBool}, boolT}
	}
	savePol := x.polarity
	if e.Op == token.EQL || e.Op == token.NEQ {
		x.polarity = 0
	}
	a := x.eval(env, e.X)
	b := x.eval(env, e.Y)
	x.polarity = savePol
	a, b = x.coerceNil(a, b)
	rt := a.T
	if rt == untypedInt && b.T != nil {
		rt = b.T
	}
	switch e.Op {
	case token.EQL, token.NEQ:
		var t string
		if ai, ok := a.V.(Iface); ok {
			bi := b.V.(Iface)
			if bi.Tag == "0" {
				t = eq(ai.Tag, "0")
			} else if ai.Tag == "0" {
				t = eq(bi.Tag, "0")
			} else {
				t = and(eq(ai.Tag, bi.Tag), eq(ai.Ref, bi.Ref))
			}
		} else if as, ok := a.V.(Slice); ok {
			bs := b.V.(Slice)
			if bs.Arr == "0" {
				t = eq(as.Arr, "0")
			} else {
				t = and(eq(as.Arr, bs.Arr), eq(as.Off, bs.Off), eq(as.Len, bs.Len))
			}
		} else {
			t = x.equal(a.V, b.V, nil, nil)
		}
		if e.Op == token.NEQ {
			t = not(t)
		}
		return TV{S{t, SBool}, boolT}
	case token.LSS, token.LEQ, token.GTR, token.GEQ:
		op := map[token.Token]string{token.LSS: "<", token.LEQ: "<=", token.GTR: ">", token.GEQ: ">="}[e.Op]
		return TV{S{"(" + op + " " + a.V.(S).T + " " + b.V.(S).T + ")", SBool}, boolT}
	case token.ADD:
		return TV{S{"(+ " + a.V.(S).T + " " + b.V.(S).T + ")", SInt}, rt}
	case token.SUB:
		return TV{S{"(- " + a.V.(S).T + " " + b.V.(S).T + ")", SInt}, rt}
	case token.MUL:
		return TV{S{"(* " + a.V.(S).T + " " + b.V.(S).T + ")", SInt}, rt}
	}
	panic(fmt.Sprintf("contract: unsupported operator %s", e.Op))
}

func (x *X) evalCall(env *Env, e *ast.CallExpr) TV {
	boolT := types.Typ[types.Bool]
	if id, ok := e.Fun.(*ast.Ident); ok {
		if tv, isVar := env.vars[id.Name]; isVar {
			if clo, isClo := tv.V.(Clo); isClo && clo.Fn != nil {
				var args []Val
				for i, ae := range e.Args {
					a := x.eval(env, ae)
					pt := clo.Fn.Signature.Params().At(i).Type()
					if a.V == nil && a.T == nil {
						a = TV{x.zero(pt), pt}
					}
					args = append(args, a.V)
				}
				x.noOblig++
				save := x.st
				x.st = save.clone()
				r := x.callStatic(clo.Fn, args, clo.Free, nil)
				x.st = save
				x.noOblig--
				return TV{r, resultType(clo.Fn.Signature)}
			}
		}
		switch id.Name {
		case "imp":
			x.polarity = -x.polarity
			a := x.evalArgBool(env, e.Args[0])
			x.polarity = -x.polarity
			b := x.evalArgBool(env, e.Args[1])
			return TV{S{implies(a, b), SBool}, boolT}
		case "iff":
			save := x.polarity
			x.polarity = 0
			a, b := x.evalArgBool(env, e.Args[0]), x.evalArgBool(env, e.Args[1])
			x.polarity = save
			return TV{S{eq(a, b), SBool}, boolT}
		case "ite":
			c := x.evalArgBool(env, e.Args[0])
			a, b := x.eval(env, e.Args[1]), x.eval(env, e.Args[2])
			a, b = x.coerceNil(a, b)
			return TV{x.mergeVals(c, a.V, b.V), a.T}
		case "len":
			a := x.eval(env, e.Args[0])
			switch v := a.V.(type) {
			case Slice:
				return TV{S{v.Len, SInt}, types.Typ[types.Int]}
			case S:
				return TV{S{"(gs.len " + v.T + ")", SInt}, types.Typ[types.Int]}
			case MapV:
				return TV{S{x.mapLen(a.T.Underlying().(*types.Map), v.Ref), SInt}, types.Typ[types.Int]}
			}
		case "strlastindex", "strindex":
			a, b := x.eval(env, e.Args[0]), x.eval(env, e.Args[1])
			sym := "strings.LastIndex"
			if id.Name == "strindex" {
				sym = "strings.Index"
			}
			x.sc.Declare(sym, []string{SStr, SStr}, SInt)
			return TV{S{"(" + sym + " " + a.V.(S).T + " " + b.V.(S).T + ")", SInt}, types.Typ[types.Int]}
		case "parseuint":
			// parseuint(s): the value strconv.ParseUint(s, 10, 64) returns (same symbol as the extern model)
			a := x.eval(env, e.Args[0])
			x.sc.Declare("strconv.ParseUint.val", []string{SStr, SInt, SInt}, SInt)
			return TV{S{"(strconv.ParseUint.val " + a.V.(S).T + " 10 64)", SInt}, types.Typ[types.Uint64]}
		case "strcontains":
			// strcontains(s, sub): the value strings.Contains(s, sub) (same symbol as the extern model)
			a, b := x.eval(env, e.Args[0]), x.eval(env, e.Args[1])
			x.sc.Declare("strings.Contains", []string{SStr, SStr}, SBool)
			return TV{S{"(strings.Contains " + a.V.(S).T + " " + b.V.(S).T + ")", SBool}, boolT}
		case "seen":
			// seen(k): key k was already visited by the enclosing range-over-map loop (ghost)
			sv, ok := env.vars["$seen"]
			if !ok {
				panic("contract: seen() outside a range-over-map loop invariant")
			}
			k := x.eval(env, e.Args[0])
			return TV{S{"(select " + sv.V.(S).T + " " + k.V.(S).T + ")", SBool}, boolT}
		case "rowis":
			// rowis(s, t, i, val): the whole backing array of s now is the backing array t had in the old
			// state with element i of t set to val (nothing else in it changed, beyond len and cap included)
			if env.old == nil {
				panic("contract: rowis() outside a postcondition or invariant")
			}
			stv := x.eval(env, e.Args[0])
			a := stv.V.(Slice)
			b := x.eval(env, e.Args[1]).V.(Slice)
			i := x.eval(env, e.Args[2]).V.(S).T
			val := x.eval(env, e.Args[3]).V.(S).T
			el := stv.T.Underlying().(*types.Slice).Elem()
			key := elemLoc(el, "a", "0").key
			es := x.leafSort(el)
			cur := x.heapCur(key, arr2Sort(es))
			was := x.heapIn(env.old, key)
			return TV{S{fmt.Sprintf("(= (select %s %s) (store (select %s %s) (+ %s %s) %s))", cur, a.Arr, was, b.Arr, b.Off, i, val), SBool}, boolT}
		case "samearr":
			// samearr(s, t): the two slices have the same backing array and start
			a := x.eval(env, e.Args[0]).V.(Slice)
			b := x.eval(env, e.Args[1]).V.(Slice)
			return TV{S{fmt.Sprintf("(and (= %s %s) (= %s %s))", a.Arr, b.Arr, a.Off, b.Off), SBool}, boolT}
		case "backed":
			// backed(s, &p.f): slice s starts at element 0 of the array field f of object p and has its capacity
			sl := x.eval(env, e.Args[0]).V.(Slice)
			if u, ok := e.Args[1].(*ast.UnaryExpr); ok && u.Op == token.AND {
				if sel, ok := u.X.(*ast.SelectorExpr); ok {
					base := x.eval(env, sel.X)
					if p, ok := base.V.(Ptr); ok && p.Kind == pObj && len(p.Path) == 0 {
						root := base.T.Underlying().(*types.Pointer).Elem()
						id := x.interiorArr(objLoc(root, p.Obj).field(sel.Sel.Name))
						capFact := ""
						if st, ok := root.Underlying().(*types.Struct); ok {
							for i := 0; i < st.NumFields(); i++ {
								if at, isArr := st.Field(i).Type().Underlying().(*types.Array); isArr && st.Field(i).Name() == sel.Sel.Name {
									// ... and extends to the end of that array (as p.f[:k] does)
									capFact = fmt.Sprintf(" (= %s %d)", sl.Cap, at.Len())
								}
							}
						}
						return TV{S{fmt.Sprintf("(and (= %s %s) (= %s 0)%s)", sl.Arr, id, sl.Off, capFact), SBool}, boolT}
					}
				}
			}
			panic("contract: backed(s, &p.f) needs an array field f of the object p points to")
		case "touches":
			return TV{S{x.evalTouches(env, e, env.old), SBool}, boolT}
		case "loopframe":
			// like touches(), relative to the state on entry of the loop
			if env.loopOld == nil {
				panic("contract: loopframe() outside a loop invariant")
			}
			return TV{S{x.evalTouches(env, e, env.loopOld), SBool}, boolT}
		case "buflen", "bufat":
			// ghost contents of a bytes.Buffer / strings.Builder: buflen(&b), bufat(&b, i)
			a := x.eval(env, e.Args[0])
			ref := bufRef(a.V)
			if id.Name == "buflen" {
				return TV{S{x.bufLen(ref), SInt}, types.Typ[types.Int]}
			}
			i := x.eval(env, e.Args[1])
			x.addPoint(i.V.(S).T, "idx")
			return TV{S{x.bufAt(ref, i.V.(S).T), SInt}, types.Typ[types.Uint8]}
		case "arb":
			// arb(name, "Type"): an arbitrary value of the type (the same one for the same name within
			// this specification): proving a goal about it proves it for all values
			nm := e.Args[0].(*ast.Ident).Name
			if tv, ok := x.arbs[nm]; ok {
				return tv
			}
			ts, _ := strconv.Unquote(e.Args[1].(*ast.BasicLit).Value)
			t := x.resolveType(env.pkg, ts)
			tv := TV{x.freshVal(t, nm), t}
			if x.arbs == nil {
				x.arbs = map[string]TV{}
			}
			x.arbs[nm] = tv
			return tv
		case "hint":
			// hint(t): always true; only puts the term t in front of the solver (a trigger)
			a := x.eval(env, e.Args[0])
			if _, ok := x.sc.declared["gv.trig"]; !ok {
				x.sc.Declare("gv.trig", []string{SInt}, SBool)
				x.sc.Assert("(forall ((x Int)) (! (gv.trig x) :pattern ((gv.trig x))))")
			}
			return TV{S{"(gv.trig " + x.flatten(a.V)[0].T + ")", SBool}, boolT}
		case "bit":
			// bit(x, k): bit k of the non-negative integer x (see bvAxioms)
			x.bvAxioms()
			a := x.eval(env, e.Args[0])
			k := x.eval(env, e.Args[1])
			return TV{S{"(bv.bit " + a.V.(S).T + " " + k.V.(S).T + ")", SBool}, boolT}
		case "bvdiff":
			// bvdiff(x, y): a bit position where x and y differ when x != y (extensionality witness)
			x.bvAxioms()
			a := x.eval(env, e.Args[0])
			b := x.eval(env, e.Args[1])
			return TV{S{"(bv.diff " + a.V.(S).T + " " + b.V.(S).T + ")", SInt}, types.Typ[types.Int]}
		case "fst", "snd":
			a := x.eval(env, e.Args[0])
			i := 0
			if id.Name == "snd" {
				i = 1
			}
			return TV{a.V.(Tup).E[i], a.T.(*types.Tuple).At(i).Type()}
		case "cap":
			a := x.eval(env, e.Args[0])
			return TV{S{a.V.(Slice).Cap, SInt}, types.Typ[types.Int]}
		case "hastype":
			a := x.eval(env, e.Args[0])
			ts, _ := strconv.Unquote(e.Args[1].(*ast.BasicLit).Value)
			t := x.resolveType(env.pkg, ts)
			return TV{S{eq(a.V.(Iface).Tag, fmt.Sprint(x.tags.tagOf(t))), SBool}, boolT}
		case "forall", "exists":
			return x.evalQuant(env, e, id.Name == "exists")
		case "old":
			if env.old == nil {
				panic("contract: old() outside a postcondition")
			}
			save := x.st
			x.st = env.old.clone()
			x.st.cond = save.cond
			r := x.eval(env, e.Args[0])
			x.st = save
			return r
		case "has":
			m := x.eval(env, e.Args[0])
			k := x.eval(env, e.Args[1])
			mt := m.T.Underlying().(*types.Map)
			return TV{S{x.mapHas(mt, m.V.(MapV).Ref, k.V), SBool}, boolT}
		case "fresh":
			// fresh(p): p was not allocated in the old state
			a := x.eval(env, e.Args[0])
			ref := x.flatten(a.V)[0].T
			if env.old == nil {
				panic("contract: fresh() outside a postcondition")
			}
			if _, isSlice := a.V.(Slice); isSlice {
				// a backing array: a positive identity that did not exist, or an array inside an object that did not exist
				al := x.heapIn(env.old, "ALLOC")
				return TV{S{fmt.Sprintf("(or (and (> %s 0) (not (select %s %s))) (and (< %s 0) (not (select %s (ia.owner %s)))))", ref, al, ref, ref, al, ref), SBool}, boolT}
			}
			return TV{S{fmt.Sprintf("(and (not (= %s 0)) (not (select %s %s)))", ref, env.old.heap["ALLOC"], ref), SBool}, boolT}
		}
		if specs := x.specs; specs != nil {
			if pd, ok := specs.Preds[env.pkg.Name()+"."+id.Name]; ok {
				sub := &Env{vars: map[string]TV{}, pkg: env.pkg, old: env.old}
				for i, p := range pd.Params {
					a := x.eval(env, e.Args[i])
					pt := x.resolveType(env.pkg, p.Type)
					if a.V == nil && a.T == nil {
						a = TV{x.zero(pt), pt}
					}
					a.T = pt
					sub.vars[p.Name] = a
				}
				return x.evalSrc(sub, pd.Body)
			}
		}
		// conversion T(x)?
		if obj := env.pkg.Scope().Lookup(id.Name); obj != nil {
			if tn, ok := obj.(*types.TypeName); ok && len(e.Args) == 1 {
				a := x.eval(env, e.Args[0])
				if a.T == untypedInt || a.T == nil {
					return TV{a.V, tn.Type()}
				}
				return TV{x.convert(a.V, a.T, tn.Type()), tn.Type()}
			}
			if fo, ok := obj.(*types.Func); ok {
				fn := x.prog.SSA.FuncValue(fo)
				return x.evalFuncCall(env, fn, nil, e.Args)
			}
		}
		if bt := types.Universe.Lookup(id.Name); bt != nil {
			if tn, ok := bt.(*types.TypeName); ok && len(e.Args) == 1 {
				a := x.eval(env, e.Args[0])
				if a.T == untypedInt || a.T == nil {
					return TV{a.V, tn.Type()}
				}
				return TV{x.convert(a.V, a.T, tn.Type()), tn.Type()}
			}
		}
		panic(fmt.Sprintf("contract: unknown function %q", id.Name))
	}
	if sel, ok := e.Fun.(*ast.SelectorExpr); ok {
		// method call
		recv := x.eval(env, sel.X)
		obj, path, _ := types.LookupFieldOrMethod(recv.T, true, env.pkg, sel.Sel.Name)
		fo, ok := obj.(*types.Func)
		if !ok {
			panic(fmt.Sprintf("contract: no method %s on %s", sel.Sel.Name, recv.T))
		}
		// promoted method: walk the embedded fields
		for _, fi := range path[:len(path)-1] {
			t := recv.T
			if pt, isPtr := t.Underlying().(*types.Pointer); isPtr {
				t = pt.Elem()
			}
			st := t.Underlying().(*types.Struct)
			recv = x.selectField(recv, st.Field(fi).Name())
		}
		if _, isIface := recv.T.Underlying().(*types.Interface); isIface {
			panic("contract: interface method calls are not supported in specifications")
		}
		fn := x.prog.SSA.FuncValue(fo)
		sig := fo.Type().(*types.Signature)
		rv := recv
		_, wantPtr := sig.Recv().Type().(*types.Pointer)
		_, havePtr := recv.T.Underlying().(*types.Pointer)
		if !wantPtr && havePtr {
			rv = TV{x.load(recv.V.(Ptr)), recv.T.Underlying().(*types.Pointer).Elem()}
		} else if wantPtr && !havePtr {
			panic("contract: method needs addressable receiver")
		}
		return x.evalFuncCall(env, fn, &rv, e.Args)
	}
	panic(fmt.Sprintf("contract: unsupported call %s", types.ExprString(e)))
}

func (x *X) evalArgBool(env *Env, e ast.Expr) string { return x.eval(env, e).V.(S).T }

func (x *X) evalFuncCall(env *Env, fn *ssa.Function, recv *TV, argExprs []ast.Expr) TV {
	if fn == nil {
		panic("contract: function has no SSA form")
	}
	sig := fn.Signature
	var args []Val
	if recv != nil {
		args = append(args, recv.V)
	}
	for i, ae := range argExprs {
		a := x.eval(env, ae)
		pt := sig.Params().At(i).Type()
		if a.V == nil && a.T == nil {
			a = TV{x.zero(pt), pt}
		}
		args = append(args, a.V)
	}
	x.noOblig++
	save := x.st
	x.st = save.clone()
	r := x.callStatic(fn, args, nil, nil)
	x.st = save
	x.noOblig--
	return TV{r, resultType(sig)}
}

// evalQuant: forall(i, lo, hi, body) over integer i in [lo, hi).
func (x *X) evalQuant(env *Env, e *ast.CallExpr, exists bool) TV {
	if len(e.Args) != 4 {
		panic("contract: forall(i, lo, hi, body)")
	}
	name := e.Args[0].(*ast.Ident).Name
	lo := x.eval(env, e.Args[1]).V.(S).T
	hi := x.eval(env, e.Args[2]).V.(S).T
	if x.sc.paramName != "" || x.inline {
		// nested or inline: plain quantifier
		x.sc.n++
		k := fmt.Sprintf("q!%d", x.sc.n)
		sub := env.child()
		sub.vars[name] = TV{S{k, SInt}, types.Typ[types.Int]}
		saveInline := x.inline
		x.inline = true
		body := x.evalArgBool(sub, e.Args[3])
		x.inline = saveInline
		if exists {
			return TV{S{fmt.Sprintf("(exists ((%s Int)) (and (<= %s %s) (< %s %s) %s))", k, lo, k, k, hi, body), SBool}, types.Typ[types.Bool]}
		}
		return TV{S{fmt.Sprintf("(forall ((%s Int)) (=> (and (<= %s %s) (< %s %s)) %s))", k, lo, k, k, hi, body), SBool}, types.Typ[types.Bool]}
	}
	x.sc.n++
	k := fmt.Sprintf("k!%d", x.sc.n)
	x.sc.paramName = k
	sub := env.child()
	sub.vars[name] = TV{S{k, SInt}, types.Typ[types.Int]}
	savePol := x.polarity
	if exists {
		x.polarity = -x.polarity
	}
	x.noFacts++
	body := x.evalArgBool(sub, e.Args[3])
	x.noFacts--
	x.polarity = savePol
	if exists {
		body = not(body) // exists k. P  ==  not forall k. not P
	}
	ref := x.sc.Define("qbody", SBool, body)
	x.sc.paramName = ""
	term := fmt.Sprintf("(forall ((%s Int)) (=> (and (<= %s %s) (< %s %s)) %s))", k, lo, k, k, hi, ref)
	res := term
	if strings.HasPrefix(ref, "(") {
		// The quantified formula is represented by a proxy Q with
		//   Q => instance at any term (added when a query is assembled)
		//   not Q => the instance at a fresh skolem constant fails
		// both valid; the exact definition is kept for the full variant only.
		fnName := ref[1 : len(ref)-len(k)-2]
		q := x.sc.Fresh("Q", SBool)
		sk := x.sc.Fresh("sk", SInt)
		x.sc.add(fmt.Sprintf("(assert (= %s %s)) ;@inst", q, term))
		x.sc.Assert(fmt.Sprintf("(=> (not %s) (and (<= %s %s) (< %s %s) (not (%s %s))))", q, lo, sk, sk, hi, fnName, sk))
		x.quants = append(x.quants, quant{guard: q, fn: fnName, lo: lo, hi: hi, pol: x.polarity, line: len(x.sc.lines)})
		if x.polarity >= 0 {
			// the quantifier may have to be established (goal side): its skolem is an instantiation point.
			// On the assumption side the skolem clause is vacuous and the point would only add instances.
			x.addPoint(sk, "*")
		}
		res = q
	}
	if exists {
		res = not(res)
	}
	return TV{S{res, SBool}, types.Typ[types.Bool]}
}

// heapIn is the term for heap key `key` in state st (materialising its base name).
func (x *X) heapIn(st *State, key string) string {
	if t, ok := st.heap[key]; ok {
		return t
	}
	name := st.baseName(key)
	x.sc.Declare(name, nil, x.heapSorts[key])
	st.heap[key] = name
	return name
}

// evalTouches renders the frame condition touches(o1, o2, ...): relative to
// the old state, the heap differs at most at the listed objects (pointers,
// maps), at arrays owned by them (array fields), at the listed backing arrays
// (slices) and at objects that did not exist in the old state.
// Each heap key that differs gets a proxy Q with
//
//	Q => forall r not listed/fresh: cur[r] == old[r]      (pattern on cur[r])
//	not Q => a skolem witness r not listed/fresh with cur[r] != old[r]
//
// so the builtin can be used on either side of an obligation.
func (x *X) evalTouches(env *Env, e *ast.CallExpr, old *State) string {
	if old == nil {
		panic("contract: touches() outside a postcondition or invariant")
	}
	if x.sc.paramName != "" {
		panic("contract: touches() inside a quantifier")
	}
	// the listed objects are named in the state the frame is relative to (as where the frame is used)
	saveSt := x.st
	x.st = old.clone()
	x.st.cond = saveSt.cond
	ts := x.touchArgs(env, e)
	x.st = saveSt
	var refs, arrs []string
	for _, r := range ts.refs {
		refs = append(refs, r.term)
	}
	for _, a := range ts.arrs {
		arrs = append(arrs, a.term)
	}
	fieldRefs := ts.fieldRefs
	if _, ok := x.heapSorts["ALLOC"]; !ok {
		x.heapSorts["ALLOC"] = arrSort(SBool)
	}
	allocOld := x.heapIn(old, "ALLOC")
	var keys []string
	for k := range x.heapSorts {
		if k != "ALLOC" {
			keys = append(keys, k)
		}
	}
	sort.Strings(keys)
	var conj []string
	if len(x.st.log) > len(old.log) {
		// something was forgotten by pattern since the old state: keys not yet
		// materialised may have changed, the frame cannot be established
		conj = append(conj, x.sc.Fresh("frame.unknown", SBool))
	}
	for _, k := range keys {
		cur := x.heapIn(x.st, k)
		was := x.heapIn(old, k)
		if cur == was {
			continue
		}
		srt := x.heapSorts[k]
		if !strings.HasPrefix(srt, "(Array Int ") {
			// a global scalar or a key indexed by something else: must be unchanged
			conj = append(conj, fmt.Sprintf("(= %s %s)", cur, was))
			continue
		}
		exempt := func(r string) string {
			var ds []string
			if strings.HasPrefix(k, "E:") {
				// rows are arrays: fresh arrays, arrays inside fresh or listed objects, listed arrays
				owner := "(ia.owner " + r + ")"
				ds = append(ds, fmt.Sprintf("(and (> %s 0) (not (select %s %s)))", r, allocOld, r))
				ds = append(ds, fmt.Sprintf("(and (< %s 0) (not (select %s %s)))", r, allocOld, owner))
				for _, a := range arrs {
					ds = append(ds, fmt.Sprintf("(= %s %s)", r, a))
				}
				for _, o := range refs {
					ds = append(ds, fmt.Sprintf("(and (< %s 0) (= %s %s))", r, owner, o))
				}
			} else {
				ds = append(ds, fmt.Sprintf("(not (select %s %s))", allocOld, r))
				for _, o := range refs {
					ds = append(ds, fmt.Sprintf("(= %s %s)", r, o))
				}
				var fks []string
				for fk := range fieldRefs {
					fks = append(fks, fk)
				}
				sort.Strings(fks)
				for _, fk := range fks {
					os := fieldRefs[fk]
					if k == fk || strings.HasPrefix(k, fk+"#") || strings.HasPrefix(k, fk+".") {
						for _, o := range os {
							ds = append(ds, fmt.Sprintf("(= %s %s)", r, o))
						}
					}
				}
			}
			return "(or " + strings.Join(ds, " ") + ")"
		}
		q := x.sc.Fresh("Qframe", SBool)
		sk := x.sc.Fresh("skf", SInt)
		if x.polarity <= 0 {
			// usable as a fact: stated over a declared alias of the current heap so that the pattern is a plain term
			alias := x.sc.Fresh("fr."+k, srt)
			x.sc.Assert(fmt.Sprintf("(= %s %s)", alias, cur))
			x.sc.add(fmt.Sprintf("(assert (=> %s (forall ((r Int)) (! (or %s (= (select %s r) (select %s r))) :pattern ((select %s r)))))) ;@inst", q, exempt("r"), alias, was, alias))
			// instantiated at the object / array identities the program handles
			x.sc.n++
			fn := fmt.Sprintf("frbody!%d", x.sc.n)
			x.sc.add(fmt.Sprintf("(define-fun %s ((r Int)) Bool (or %s (= (select %s r) (select %s r))))", fn, exempt("r"), cur, was))
			class := "ref"
			if strings.HasPrefix(k, "E:") {
				class = "arr"
			}
			x.quants = append(x.quants, quant{class: class, guard: q, fn: fn, line: len(x.sc.lines), key: k})
		}
		if x.polarity >= 0 {
			if strings.HasPrefix(k, "E:") {
				x.addPointT(sk, "arr", "", k)
			} else {
				x.addPointT(sk, "ref", "", k)
			}
			x.sc.Assert(fmt.Sprintf("(=> (not %s) (and (not %s) (not (= (select %s %s) (select %s %s)))))", q, exempt(sk), cur, sk, was, sk))
		}
		conj = append(conj, q)
	}
	if len(conj) == 0 {
		return "true"
	}
	return "(and " + strings.Join(conj, " ") + ")"
}
