package main

import (
	"bytes"
	"context"
	"fmt"
	"os"
	"os/exec"
	"path/filepath"
	"strings"
	"sync"
	"time"
)

// Sorts used by the encoding.
const (
	SInt  = "Int"
	SBool = "Bool"
	SStr  = "Real" // strings are represented by an order embedding into the reals; see DESIGN §3.3
	SReal = "Real"
)

func arrSort(elem string) string  { return "(Array Int " + elem + ")" }
func arr2Sort(elem string) string { return "(Array Int (Array Int " + elem + "))" }

// Script accumulates declarations, definitions and assumptions shared by the
// obligations of one function or lemma.
type Script struct {
	lines    []string
	declared map[string]string
	n        int
	// When non-empty, definitions are parametrised (first-exit loop bodies).
	paramName string
	size      int
	asserted  map[string]bool // assertions made so far (exact duplicates are not repeated)
}

func NewScript() *Script {
	return &Script{declared: map[string]string{}}
}

func (s *Script) add(l string) {
	s.lines = append(s.lines, l)
	s.size += len(l)
	if s.size > 40<<20 {
		panic(unsupported{"VC larger than 40 MB"})
	}
}

// Declare declares an uninterpreted constant or function once.
func (s *Script) Declare(name string, argSorts []string, res string) {
	sig := "(" + strings.Join(argSorts, " ") + ") " + res
	if old, ok := s.declared[name]; ok {
		if old != sig {
			panic(fmt.Sprintf("smt: %s redeclared with %s, was %s", name, sig, old))
		}
		return
	}
	s.declared[name] = sig
	s.add(fmt.Sprintf("(declare-fun %s %s)", name, sig))
}

func (s *Script) Fresh(hint, sort string) string {
	s.n++
	name := fmt.Sprintf("%s!%d", sanitize(hint), s.n)
	s.Declare(name, nil, sort)
	return name
}

// Define names a term. Inside a parametrised region the definition takes the
// region's parameter and the returned reference applies it.
func (s *Script) Define(hint, sort, term string) string {
	if isAtom(term) {
		return term
	}
	s.n++
	name := fmt.Sprintf("%s!%d", sanitize(hint), s.n)
	if s.paramName != "" && strings.Contains(term, s.paramName) {
		s.add(fmt.Sprintf("(define-fun %s ((%s Int)) %s %s)", name, s.paramName, sort, term))
		return "(" + name + " " + s.paramName + ")"
	}
	s.add(fmt.Sprintf("(define-fun %s () %s %s)", name, sort, term))
	return name
}

func (s *Script) Assert(term string) {
	if term == "true" {
		return
	}
	if s.asserted == nil {
		s.asserted = map[string]bool{}
	}
	if s.asserted[term] && os.Getenv("GOVC_NODEDUP") == "" {
		return // stated before: it is part of every prefix this line would belong to
	}
	s.asserted[term] = true
	s.add("(assert " + term + ")")
}

func (s *Script) Comment(c string) { s.add("; " + strings.ReplaceAll(c, "\n", " ")) }

func (s *Script) Text() string { return strings.Join(s.lines, "\n") + "\n" }

func (s *Script) Clone() *Script {
	c := &Script{lines: append([]string(nil), s.lines...), declared: map[string]string{}, n: s.n, paramName: s.paramName, size: s.size, asserted: map[string]bool{}}
	for k := range s.asserted {
		c.asserted[k] = true
	}
	for k, v := range s.declared {
		c.declared[k] = v
	}
	return c
}

func isAtom(t string) bool {
	return !strings.ContainsAny(t, " (")
}

func sanitize(s string) string {
	var b strings.Builder
	for _, r := range s {
		switch {
		case r >= 'a' && r <= 'z', r >= 'A' && r <= 'Z', r >= '0' && r <= '9', r == '_', r == '.', r == '$':
			b.WriteRune(r)
		case r == '#':
			b.WriteRune('$')
		case r == '*':
			b.WriteString("p.")
		case r == '[' || r == ']':
			b.WriteString("..")
		default:
			b.WriteRune('_')
		}
	}
	if b.Len() == 0 {
		return "x"
	}
	return b.String()
}

// ---- term helpers ----

func and(ts ...string) string {
	var out []string
	for _, t := range ts {
		if t == "true" || t == "" {
			continue
		}
		if t == "false" {
			return "false"
		}
		out = append(out, t)
	}
	switch len(out) {
	case 0:
		return "true"
	case 1:
		return out[0]
	}
	return "(and " + strings.Join(out, " ") + ")"
}

func or(ts ...string) string {
	var out []string
	for _, t := range ts {
		if t == "false" || t == "" {
			continue
		}
		if t == "true" {
			return "true"
		}
		out = append(out, t)
	}
	switch len(out) {
	case 0:
		return "false"
	case 1:
		return out[0]
	}
	return "(or " + strings.Join(out, " ") + ")"
}

func not(t string) string {
	switch t {
	case "true":
		return "false"
	case "false":
		return "true"
	}
	if strings.HasPrefix(t, "(not ") && strings.HasSuffix(t, ")") && balanced(t[5:len(t)-1]) {
		return t[5 : len(t)-1]
	}
	return "(not " + t + ")"
}

func balanced(t string) bool {
	d := 0
	for i, c := range t {
		switch c {
		case '(':
			d++
		case ')':
			d--
			if d == 0 && i != len(t)-1 {
				return false
			}
			if d < 0 {
				return false
			}
		case ' ':
			if d == 0 {
				return false
			}
		}
	}
	return d == 0
}

func implies(a, b string) string {
	if a == "true" {
		return b
	}
	if a == "false" || b == "true" {
		return "true"
	}
	return "(=> " + a + " " + b + ")"
}

func ite(c, a, b string) string {
	if c == "true" {
		return a
	}
	if c == "false" {
		return b
	}
	if a == b {
		return a
	}
	return "(ite " + c + " " + a + " " + b + ")"
}

func eq(a, b string) string {
	if a == b {
		return "true"
	}
	return "(= " + a + " " + b + ")"
}

func app(f string, args ...string) string {
	if len(args) == 0 {
		return f
	}
	return "(" + f + " " + strings.Join(args, " ") + ")"
}

func intLit(n int64) string {
	if n < 0 {
		if n == -n { // MinInt64
			return "(- 9223372036854775808)"
		}
		return fmt.Sprintf("(- %d)", -n)
	}
	return fmt.Sprintf("%d", n)
}

func uintLit(n uint64) string { return fmt.Sprintf("%d", n) }

// ---- solving ----

type SolveResult struct {
	Status string // "unsat", "sat", "unknown", "timeout", "error"
	Solver string
	Secs   float64
	Model  string
	Raw    string
	All    map[string]string // per solver status (thorough tier)
}

type solverSpec struct {
	name string
	argv func(file string, timeoutS int) []string
	pre  string
}

var solvers = []solverSpec{
	{"z3-new-5.1.0", func(f string, t int) []string { return []string{"z3-new", fmt.Sprintf("-T:%d", t), f} }, ""},
	{"z3-new-5.1.0/arith2", func(f string, t int) []string {
		return []string{"z3-new", fmt.Sprintf("-T:%d", t), "smt.arith.solver=2", f}
	}, ""},
	{"z3-new-5.1.0/norelevancy", func(f string, t int) []string {
		return []string{"z3-new", fmt.Sprintf("-T:%d", t), "smt.relevancy=0", f}
	}, ""},
	{"z3-4.8.12", func(f string, t int) []string { return []string{"z3", fmt.Sprintf("-T:%d", t), f} }, ""},
	{"cvc5-1.0.3", func(f string, t int) []string {
		return []string{"cvc5", "--incremental", fmt.Sprintf("--tlimit=%d", t*1000), f}
	}, "(set-option :produce-models true)\n(set-logic ALL)\n"},
}

var scratchDir string
var scratchOnce sync.Once

func scratch() string {
	scratchOnce.Do(func() {
		base := os.Getenv("GOVC_SCRATCH")
		if base == "" {
			base = "/var/tmp"
		}
		d, err := os.MkdirTemp(base, "govc-")
		if err != nil {
			panic(err)
		}
		scratchDir = d
	})
	return scratchDir
}

func cleanupScratch() {
	if scratchDir != "" && os.Getenv("GOVC_KEEP") == "" {
		os.RemoveAll(scratchDir)
	}
}

var solveSeq int
var solveMu sync.Mutex

// Solve checks satisfiability of body (a complete script without check-sat).
// unsat means the obligation is discharged. In the quick tier the first
// decisive answer wins; with all=true every solver is run and disagreement is
// reported as status "disagree".
func Solve(name, body string, timeoutS int, wantModel bool, all bool) SolveResult {
	solveMu.Lock()
	solveSeq++
	id := solveSeq
	solveMu.Unlock()
	start := time.Now()
	type ans struct {
		solver, status, out string
		secs                float64
	}
	ctx, cancel := context.WithCancel(context.Background())
	defer cancel()
	ch := make(chan ans, len(solvers))
	usable := solvers
	// cvc5 rejects some z3-only syntax; skip it when the script uses lambda or const arrays with bit-vectors.
	for i, sv := range usable {
		go func(i int, sv solverSpec) {
			file := filepath.Join(scratch(), fmt.Sprintf("q%d_%d.smt2", id, i))
			text := sv.pre + body + "(check-sat)\n"
			if wantModel {
				text += "(get-model)\n"
			}
			os.WriteFile(file, []byte(text), 0o644)
			defer os.Remove(file)
			t0 := time.Now()
			argv := sv.argv(file, timeoutS)
			cmd := exec.CommandContext(ctx, argv[0], argv[1:]...)
			var out bytes.Buffer
			cmd.Stdout = &out
			cmd.Stderr = &out
			cmd.Run()
			o := out.String()
			first := strings.TrimSpace(strings.SplitN(o, "\n", 2)[0])
			st := "error"
			switch {
			case first == "unsat":
				st = "unsat"
			case first == "sat":
				st = "sat"
			case first == "unknown":
				st = "unknown"
			case strings.Contains(first, "timeout") || strings.Contains(o, "interrupted by timeout") || ctx.Err() != nil:
				st = "timeout"
			}
			ch <- ans{sv.name, st, o, time.Since(t0).Seconds()}
		}(i, sv)
	}
	res := SolveResult{Status: "unknown", All: map[string]string{}}
	got := 0
	var grace <-chan time.Time
	for got < len(usable) {
		var a ans
		select {
		case a = <-ch:
		case <-grace:
			// cross-checking mode: the remaining solvers had 30 s more to disagree with the first answer
			cancel()
			got = len(usable)
			continue
		}
		got++
		res.All[a.solver] = a.status
		if a.status == "error" && res.Raw == "" {
			res.Raw = a.solver + ": " + firstLines(a.out, 5)
		}
		if a.status == "unsat" || a.status == "sat" {
			if res.Status == "unsat" || res.Status == "sat" {
				if res.Status != a.status {
					res.Status = "disagree"
					res.Raw += fmt.Sprintf(" %s says %s;", a.solver, a.status)
				}
				continue
			}
			res.Status, res.Solver, res.Secs = a.status, a.solver, a.secs
			if a.status == "sat" {
				res.Model = a.out
			}
			if !all {
				cancel()
				break
			}
			if grace == nil {
				grace = time.After(30 * time.Second)
			}
		}
	}
	if res.Status == "unknown" {
		res.Secs = time.Since(start).Seconds()
		allTO := true
		for _, s := range res.All {
			if s != "timeout" {
				allTO = false
			}
		}
		if allTO {
			res.Status = "timeout"
		}
		errs := 0
		for _, s := range res.All {
			if s == "error" {
				errs++
			}
		}
		if errs == len(res.All) {
			res.Status = "error"
		}
	}
	return res
}

func firstLines(s string, n int) string {
	ls := strings.Split(s, "\n")
	if len(ls) > n {
		ls = ls[:n]
	}
	return strings.Join(ls, " | ")
}

// SolveWith runs the named solvers only and returns the first decisive status.
func SolveWith(name, body string, timeoutS int, names []string) string {
	solveMu.Lock()
	solveSeq++
	id := solveSeq
	solveMu.Unlock()
	for _, sv := range solvers {
		use := false
		for _, n := range names {
			if n == sv.name {
				use = true
			}
		}
		if !use {
			continue
		}
		file := filepath.Join(scratch(), fmt.Sprintf("p%d.smt2", id))
		os.WriteFile(file, []byte(sv.pre+body+"(check-sat)\n"), 0o644)
		argv := sv.argv(file, timeoutS)
		if name == "prune" && strings.HasPrefix(sv.name, "z3") {
			// pruning only profits from quick answers; a resource limit (not a time limit) keeps the outcome,
			// and with it the set of paths and the names of their obligations, the same from run to run
			argv = append(argv[:len(argv)-1], "rlimit=2000000", argv[len(argv)-1])
		}
		out, _ := exec.Command(argv[0], argv[1:]...).CombinedOutput()
		os.Remove(file)
		first := strings.TrimSpace(strings.SplitN(string(out), "\n", 2)[0])
		if first == "unsat" || first == "sat" {
			return first
		}
	}
	return "unknown"
}

// SolveOne runs a single solver and returns its answer with the model.
func SolveOne(name, body string, timeoutS int, solver string) SolveResult {
	solveMu.Lock()
	solveSeq++
	id := solveSeq
	solveMu.Unlock()
	res := SolveResult{Status: "unknown", All: map[string]string{}}
	for _, sv := range solvers {
		if sv.name != solver {
			continue
		}
		file := filepath.Join(scratch(), fmt.Sprintf("o%d.smt2", id))
		os.WriteFile(file, []byte(sv.pre+body+"(check-sat)\n(get-model)\n"), 0o644)
		t0 := time.Now()
		argv := sv.argv(file, timeoutS)
		out, _ := exec.Command(argv[0], argv[1:]...).CombinedOutput()
		os.Remove(file)
		first := strings.TrimSpace(strings.SplitN(string(out), "\n", 2)[0])
		res.Secs = time.Since(t0).Seconds()
		res.Solver = sv.name
		if first == "unsat" || first == "sat" {
			res.Status = first
			if first == "sat" {
				res.Model = string(out)
			}
		}
	}
	return res
}

func solveOneCtx(ctx context.Context, name, body string, timeoutS int, solver string) SolveResult {
	solveMu.Lock()
	solveSeq++
	id := solveSeq
	solveMu.Unlock()
	res := SolveResult{Status: "unknown"}
	for _, sv := range solvers {
		if sv.name != solver {
			continue
		}
		file := filepath.Join(scratch(), fmt.Sprintf("c%d.smt2", id))
		os.WriteFile(file, []byte(sv.pre+body+"(check-sat)\n(get-model)\n"), 0o644)
		t0 := time.Now()
		argv := sv.argv(file, timeoutS)
		out, _ := exec.CommandContext(ctx, argv[0], argv[1:]...).CombinedOutput()
		os.Remove(file)
		first := strings.TrimSpace(strings.SplitN(string(out), "\n", 2)[0])
		res.Secs = time.Since(t0).Seconds()
		res.Solver = sv.name
		if first == "unsat" || first == "sat" {
			res.Status = first
			if first == "sat" {
				res.Model = string(out)
			}
		}
	}
	return res
}
