package main

import (
	"fmt"
	"go/token"
	"go/types"
	"os"
	"sort"
	"strings"

	"golang.org/x/tools/go/ssa"
)

// Static may-read analysis over go/ssa: the heap keys a function's result
// (and behaviour) may depend on. Mirror image of fnWrites. It gives opaque
// (symbolic) functions the part of the heap their applications are
// versioned by when no `reads` clause is written, and it decides `reads`
// clauses that are written.

func (x *X) fnReads(fn *ssa.Function) *writeSet {
	if x.rsMemo == nil {
		x.rsMemo = map[*ssa.Function]*writeSet{}
		x.rsBusy = map[*ssa.Function]bool{}
	}
	if w, ok := x.rsMemo[fn]; ok {
		return w
	}
	if x.rsBusy[fn] || fn.Blocks == nil {
		w := newWriteSet()
		w.all = true // recursion or no body: give up
		return w
	}
	x.rsBusy[fn] = true
	w := newWriteSet()
	for _, b := range fn.Blocks {
		for _, in := range b.Instrs {
			switch in := in.(type) {
			case *ssa.UnOp:
				if in.Op != token.MUL {
					continue
				}
				l, c, ok := x.addrLoc(in.X)
				switch {
				case !ok:
					if os.Getenv("GOVC_WSDEBUG") != "" {
						fmt.Fprintln(os.Stderr, "reads: untracked load", in, "in", fn.Name())
					}
					w.all = true
				case c != nil:
					// a local cell
				default:
					x.addKeys(w, l, in.Type())
				}
			case *ssa.Lookup:
				if mt, ok := in.X.Type().Underlying().(*types.Map); ok {
					x.mapKeys(w, mt)
				}
			case *ssa.Range:
				if mt, ok := in.X.Type().Underlying().(*types.Map); ok {
					x.mapKeys(w, mt)
				}
			case *ssa.TypeAssert, *ssa.MakeInterface:
				// boxes are immutable (written once at creation)
			case *ssa.Slice:
				// slicing an array through a pointer reads nothing; a string or slice operand is a value
			case *ssa.Convert:
				if kindOf(in.X.Type()) == kSlice && kindOf(in.Type()) == kString {
					el := in.X.Type().Underlying().(*types.Slice).Elem()
					x.addKeys(w, loc{key: "E:" + typeKey(el), idx: []string{"a", "i"}}, el)
				}
			case ssa.CallInstruction:
				x.callReads(w, in.Common())
			}
		}
	}
	delete(x.rsBusy, fn)
	x.rsMemo[fn] = w
	return w
}

func (x *X) callReads(w *writeSet, c *ssa.CallCommon) {
	if b, ok := c.Value.(*ssa.Builtin); ok {
		switch b.Name() {
		case "append", "copy":
			for _, a := range c.Args {
				if st, ok := a.Type().Underlying().(*types.Slice); ok {
					x.addKeys(w, loc{key: "E:" + typeKey(st.Elem()), idx: []string{"a", "i"}}, st.Elem())
				}
			}
		case "len":
			if mt, ok := c.Args[0].Type().Underlying().(*types.Map); ok {
				w.keys["M:"+typeKey(mt)+"#mlen"] = arrSort(SInt)
			}
		}
		return
	}
	if c.IsInvoke() {
		if !c.Method.Exported() && isRepoPkg(c.Method.Pkg()) {
			it := c.Value.Type().Underlying().(*types.Interface)
			scope := c.Method.Pkg().Scope()
			for _, n := range scope.Names() {
				tn, ok := scope.Lookup(n).(*types.TypeName)
				if !ok {
					continue
				}
				for _, t := range []types.Type{tn.Type(), types.NewPointer(tn.Type())} {
					if _, isI := tn.Type().Underlying().(*types.Interface); isI {
						continue
					}
					if types.Implements(t, it) {
						if m := x.prog.SSA.LookupMethod(t, c.Method.Pkg(), c.Method.Name()); m != nil {
							w.union(x.fnReads(m))
						}
						break
					}
				}
			}
			return
		}
		w.all = true
		return
	}
	f := c.StaticCallee()
	if f == nil {
		if mc, ok := c.Value.(*ssa.MakeClosure); ok {
			f = mc.Fn.(*ssa.Function)
		}
	}
	if f == nil {
		if fns, ok := closureTargets(c.Value, map[ssa.Value]bool{}); ok {
			for _, g := range fns {
				w.union(x.fnReads(g))
			}
			return
		}
		w.all = true
		return
	}
	full := f.String()
	if f.Origin() != nil {
		full = f.Origin().String()
	}
	if p := pkgOf(f); p != nil && purePkgs[p.Path()] {
		return // works on its (value) arguments only
	}
	if x.specs != nil {
		if fs := x.specs.Funcs[FuncName(f)]; fs != nil && len(fs.Reads) > 0 && fs.Trusted {
			for _, m := range fs.Reads {
				w.keys["@"+m] = ""
			}
			return
		}
	}
	if f.Blocks != nil && isRepoPkg(pkgOf(f)) {
		w.union(x.fnReads(f))
		return
	}
	if _, ok := externModels[full]; ok {
		if strings.HasPrefix(full, "(*bytes.Buffer)") || strings.HasPrefix(full, "(*strings.Builder)") {
			w.keys["X:buffer#len"] = arrSort(SInt)
			w.keys["X:buffer#byte"] = arr2Sort(SInt)
		}
		return // the other modelled externs work on values
	}
	if os.Getenv("GOVC_WSDEBUG") != "" {
		fmt.Fprintln(os.Stderr, "reads: unknown callee", full)
	}
	w.all = true
}

// derivedReads renders the read set of fn as a `reads` list (nil = everything).
func (x *X) derivedReads(fn *ssa.Function) []string {
	w := x.fnReads(fn)
	if w.all {
		return nil
	}
	var out []string
	for k := range w.keys {
		out = append(out, strings.TrimPrefix(k, "@"))
	}
	if len(out) == 0 {
		return []string{"nothing"}
	}
	sort.Strings(out)
	return out
}
