package main

import (
	"fmt"
	"go/token"
	"os"
	"sort"
	"time"

	"golang.org/x/tools/go/ssa"
)

// runLoop handles the natural loop li when its header is reached.
func (x *X) runLoop(fr *frame, order []*ssa.BasicBlock, li *loopInfo, done map[int]bool) {
	for b := range li.blocks {
		done[b] = true
	}
	if x.mode == modeSummary {
		func() {
			saveParam, saveLoop, saveExits, saveNo := x.sc.paramName, fr.inLoop, fr.exitsTo, x.noOblig
			saveIn := fr.in[li.header.Index]
			defer func() {
				if r := recover(); r != nil {
					u, ok := r.(unsupported)
					if !ok || saveParam != "" {
						panic(r)
					}
					// The loop is outside the subset: the enclosing lemma stays valid only
					// if the loop is unreachable; that becomes a side condition to prove.
					x.sc.paramName, fr.inLoop, fr.exitsTo, x.noOblig = saveParam, saveLoop, saveExits, saveNo
					entry := x.mergeEdges(saveIn)
					if entry != nil {
						x.sideConds = append(x.sideConds, sideCond{cond: entry.cond, why: FuncName(fr.fn) + ": " + u.why})
					}
				}
			}()
			x.summariseLoop(fr, order, li)
		}()
		return
	}
	x.cutLoop(fr, order, li)
}

// counterOf recognises the counting-loop shape: the header has exactly one
// phi p, every back edge carries p+1 (or the value `p+1` computed in the
// header, as range loops do), and the header branches on `c < n` with n
// defined outside the loop and the false edge leaving the loop. It returns
// the phi, its initial value and whether the shape matched.
func counterOf(li *loopInfo) (phi *ssa.Phi, why string) {
	h := li.header
	var phis []*ssa.Phi
	for _, in := range h.Instrs {
		if p, ok := in.(*ssa.Phi); ok {
			phis = append(phis, p)
		}
	}
	if len(phis) != 1 {
		return nil, fmt.Sprintf("loop has %d loop-carried variables (first-exit summary needs exactly the counter)", len(phis))
	}
	p := phis[0]
	isInc := func(v ssa.Value) bool {
		b, ok := v.(*ssa.BinOp)
		if !ok || b.Op != token.ADD || b.X != p {
			return false
		}
		c, ok := constInt(b.Y)
		return ok && c == 1
	}
	for i, pred := range h.Preds {
		back := false
		for _, bi := range li.backs {
			if bi == pred.Index {
				back = true
			}
		}
		if back && !isInc(p.Edges[i]) {
			return nil, "back edge does not carry counter+1"
		}
	}
	// termination: header (or the block holding the If) compares the counter with a loop-invariant bound
	iff, ok := h.Instrs[len(h.Instrs)-1].(*ssa.If)
	if !ok {
		return nil, "loop header does not end in a bound test"
	}
	cmp, ok := iff.Cond.(*ssa.BinOp)
	if !ok || cmp.Op != token.LSS {
		return nil, "loop bound test is not `<`"
	}
	if cmp.X != p && !isInc(cmp.X) {
		return nil, "loop bound test is not on the counter"
	}
	if ins, ok := cmp.Y.(ssa.Instruction); ok && li.blocks[ins.Block().Index] {
		return nil, "loop bound is computed inside the loop"
	}
	if li.blocks[h.Succs[1].Index] {
		return nil, "false edge of the bound test stays in the loop"
	}
	return p, ""
}

// summariseLoop gives a pure counting loop its strongest summary: there is a
// first iteration w at which the loop is left; every earlier iteration took
// the back edge. Execution continues from the exit edges evaluated at w.
func (x *X) summariseLoop(fr *frame, order []*ssa.BasicBlock, li *loopInfo) {
	if x.sc.paramName != "" {
		unsup("nested loop in a summarised function")
	}
	phi, why := counterOf(li)
	if phi == nil {
		unsup("%s", why)
	}
	h := li.header
	// entry edges
	var entries []edge
	for _, e := range fr.in[h.Index] {
		entries = append(entries, e)
	}
	entry := x.mergeEdges(entries)
	if entry == nil {
		return
	}
	if x.unreachable(entry.cond) {
		return
	}
	// initial counter value
	var c0 Val
	first := true
	for i := len(entries) - 1; i >= 0; i-- {
		e := entries[i]
		if e.st.cond == "false" {
			continue
		}
		pi := -1
		for k, p := range h.Preds {
			if p.Index == e.from {
				pi = k
			}
		}
		v := x.get(fr, phi.Edges[pi])
		if first {
			c0, first = v, false
		} else {
			c0 = x.mergeVals(e.st.cond, v, c0)
		}
	}
	lo := x.define("lo", SInt, c0.(S).T)

	x.sc.n++
	k := fmt.Sprintf("k!%d", x.sc.n)
	x.sc.paramName = k
	class := fmt.Sprintf("%s/%d", FuncName(fr.fn), h.Index)
	saveClass := x.curClass
	x.curClass = class
	defer func() { x.curClass = saveClass }()
	writtenBefore := len(x.written)
	heapBefore := map[string]string{}
	for key, t := range entry.heap {
		heapBefore[key] = t
	}

	saveLoop, saveExits, saveIn := fr.inLoop, fr.exitsTo, fr.in[h.Index]
	fr.inLoop, fr.exitsTo = li, nil
	body := entry.clone()
	body.cond = "true"
	fr.in[h.Index] = []edge{{from: -1, to: h.Index, st: body}}
	fr.vals[phi] = S{k, SInt}
	x.noOblig++
	var sub []*ssa.BasicBlock
	for _, b := range order {
		if li.blocks[b.Index] {
			sub = append(sub, b)
		}
	}
	// the header itself must run as a plain block here
	x.runBlock(fr, h, li.blocks)
	x.runBlocks(fr, sub[1:], li.blocks)
	x.noOblig--
	exits := fr.exitsTo
	fr.inLoop, fr.exitsTo = saveLoop, saveExits
	fr.in[h.Index] = saveIn

	if len(x.written) != writtenBefore {
		unsup("heap write inside a summarised loop")
	}
	var cont []string
	var outs []edge
	for _, e := range exits {
		for key, t := range e.st.heap {
			if old, ok := heapBefore[key]; ok && old != t {
				unsup("heap changed inside a summarised loop")
			}
		}
		for c, v := range e.st.cells {
			if old, ok := entry.cells[c]; ok && fmt.Sprint(old) != fmt.Sprint(v) {
				unsup("local %s modified inside a summarised loop", c.name)
			}
		}
		if e.to == h.Index {
			cont = append(cont, e.st.cond)
		} else {
			outs = append(outs, e)
		}
	}
	contName := x.sc.Define("cont", SBool, or(cont...))
	x.sc.paramName = ""
	// contName is "(cont!N k)" or a constant
	w := x.sc.Fresh("w", SInt)
	x.witnesses = append(x.witnesses, w)
	x.witClass[w] = class
	x.addPoint(w, class)
	if phi.Comment == "rangeindex" {
		if x.rangeWitness == nil {
			x.rangeWitness = map[string]bool{}
		}
		x.rangeWitness[w] = true
		if x.rangeClass == nil {
			x.rangeClass = map[string]bool{}
		}
		x.rangeClass[class] = true
	}
	atW := func(s string) string { return replaceTok(s, k, w) }
	x.sc.Assert(implies(entry.cond, fmt.Sprintf("(<= %s %s)", lo, w)))
	x.sc.Assert(implies(entry.cond, not(atW(contName))))
	if contName != "true" && contName != "false" {
		fnName := contName[1 : len(contName)-len(k)-2]
		x.sc.add("(assert " + implies(entry.cond, fmt.Sprintf("(forall ((%s Int)) (=> (and (<= %s %s) (< %s %s)) %s))", k, lo, k, k, w, contName)) + ") ;@inst")
		x.quants = append(x.quants, quant{guard: entry.cond, fn: fnName, lo: lo, hi: w, class: class, line: len(x.sc.lines)})
	}
	// values defined in the loop are now the values of iteration w
	for v, val := range fr.vals {
		if ins, ok := v.(ssa.Instruction); ok && ins.Block() != nil && ins.Parent() == fr.fn && li.blocks[ins.Block().Index] {
			fr.vals[v] = substVal(val, k, w)
		}
	}
	sort.SliceStable(outs, func(i, j int) bool { return outs[i].to < outs[j].to })
	for _, e := range outs {
		st := e.st.clone()
		st.cond = x.define("xc", SBool, and(entry.cond, atW(st.cond)))
		for key, t := range st.heap {
			st.heap[key] = atW(t)
		}
		for c, v := range st.cells {
			st.cells[c] = substVal(v, k, w)
		}
		fr.in[e.to] = append(fr.in[e.to], edge{from: e.from, to: e.to, st: st})
	}
}

func replaceTok(s, from, to string) string {
	// k!N tokens are unique and delimited by space or parenthesis
	out := make([]byte, 0, len(s))
	for i := 0; i < len(s); {
		if i+len(from) <= len(s) && s[i:i+len(from)] == from {
			j := i + len(from)
			if j == len(s) || s[j] == ' ' || s[j] == ')' {
				out = append(out, to...)
				i = j
				continue
			}
		}
		out = append(out, s[i])
		i++
	}
	return string(out)
}

// unreachable asks a solver whether cond contradicts the assumptions made so
// far (used to prune dead loops before summarising them).
func (x *X) unreachable(cond string) bool {
	if cond == "true" || x.inline {
		return false
	}
	if cond == "false" {
		return true
	}
	// asked on the quantifier-free weakening (fewer assumptions: an unsat answer still proves the
	// path infeasible) so that a feasible path gets its "sat" quickly instead of a time-out
	q := qfVariant(instVariant(x.sc.Text())) + x.strLitDecls() + "(assert " + cond + ")\n"
	t0 := time.Now()
	r := SolveWith("prune", q, 15, []string{"z3-new-5.1.0"}) // (the resource limit set in SolveWith decides; the time limit is a backstop)
	if os.Getenv("GOVC_DEBUG") != "" {
		fmt.Fprintf(os.Stderr, "prune query: %s in %.2fs (%d lines)\n", r, time.Since(t0).Seconds(), len(x.sc.lines))
	}
	return r == "unsat"
}
