package main

import (
	"golang.org/x/tools/go/ssa"

	"encoding/json"
	"fmt"
	"os"
	"path/filepath"
	"sort"
	"strconv"
	"strings"
	"sync"
	"time"
)

const verifRoot = "/verif"

// pkgRef names one package of the repository that carries contracts.
type pkgRef struct {
	Module string // directory of the module under the repository root
	Path   string // import path
}

// PropDef says where the obligations of a property come from.
type PropDef struct {
	ID       string
	Pkgs     []pkgRef
	Extra    func(c *checkCtx, writeBaseline bool) []OblResult // non-lemma obligations (VCs, frame checks)
	Replayer func(c *checkCtx, r *OblResult) *Replay
	Trusted  []string
	Assume   []string
	Bounded  []string
}

var propDefs = map[string]*PropDef{}

type checkCtx struct {
	prop        *PropDef
	tier        string
	seed        int64
	progs       map[string]*Prog
	specs       map[string]*Specs
	mu          sync.Mutex
	fns         map[string]bool // functions under contract
	ext         map[string]bool // extern models / assumptions used
	bounded     []string
	boundedOK   []string
	foreignDone map[string]bool // contracts on functions of other modules already scheduled
}

func (c *checkCtx) prog(module string) (*Prog, error) {
	c.mu.Lock()
	defer c.mu.Unlock()
	if p, ok := c.progs[module]; ok {
		return p, nil
	}
	p, err := LoadModule(module)
	if err != nil {
		return nil, err
	}
	c.progs[module] = p
	return p, nil
}

type knownFinding struct {
	Kind       string // "known" or "fixed"
	Property   string
	Obligation string
	Text       string
}

func loadKnown() []knownFinding {
	var out []knownFinding
	data, err := os.ReadFile(filepath.Join(verifRoot, "known_findings.txt"))
	if err != nil {
		return nil
	}
	for _, l := range strings.Split(string(data), "\n") {
		l = strings.TrimSpace(l)
		if l == "" || strings.HasPrefix(l, "#") {
			continue
		}
		kf := knownFinding{Text: l}
		switch {
		case strings.HasPrefix(l, "known:"):
			kf.Kind = "known"
		case strings.HasPrefix(l, "fixed:"):
			kf.Kind = "fixed"
		default:
			continue
		}
		for _, f := range strings.Fields(l) {
			if strings.HasPrefix(f, "property=") {
				kf.Property = strings.TrimPrefix(f, "property=")
			}
			if strings.HasPrefix(f, "obligation=") {
				kf.Obligation = strings.TrimPrefix(f, "obligation=")
			}
		}
		out = append(out, kf)
	}
	return out
}

type baselineFile struct {
	Property    string   `json:"property"`
	Obligations []string `json:"obligations"`
}

func loadBaseline(id string) map[string]bool {
	data, err := os.ReadFile(filepath.Join(verifRoot, "baseline", id+".json"))
	if err != nil {
		return nil
	}
	var b baselineFile
	if json.Unmarshal(data, &b) != nil {
		return nil
	}
	m := map[string]bool{}
	for _, o := range b.Obligations {
		m[o] = true
	}
	return m
}

// Replay describes a failed obligation for `govc replay`.
type Replay struct {
	Property    string   `json:"property"`
	Obligation  string   `json:"obligation"`
	Kind        string   `json:"kind"`
	Statement   string   `json:"statement"`
	Functions   string   `json:"functions"`
	Status      string   `json:"verifier_status"`
	Solver      string   `json:"solver"`
	SolverOut   string   `json:"solver_output"`
	Found       bool     `json:"failing_input_found"`
	Input       string   `json:"failing_input,omitempty"`
	Observed    string   `json:"observed,omitempty"`
	TestFile    string   `json:"test_file,omitempty"`
	TestPkgDir  string   `json:"test_pkg_dir,omitempty"`
	TestName    string   `json:"test_name,omitempty"`
	Command     string   `json:"command,omitempty"`
	QueryFile   string   `json:"query_file,omitempty"`
	Explanation string   `json:"explanation,omitempty"`
	Notes       []string `json:"notes,omitempty"`
}

func cmdCheck(id, tier string, writeBaseline bool) int {
	start := time.Now()
	pd := propDefs[id]
	if pd == nil {
		fmt.Fprintf(os.Stderr, "property %s has no check\n", id)
		return 2
	}
	seed := int64(0)
	if s := os.Getenv("VERIF_SEED"); s != "" {
		seed, _ = strconv.ParseInt(s, 10, 64)
	}
	c := &checkCtx{prop: pd, tier: tier, seed: seed, progs: map[string]*Prog{}, specs: map[string]*Specs{}, fns: map[string]bool{}, ext: map[string]bool{}}
	var all []OblResult
	var mu sync.Mutex
	var wg sync.WaitGroup
	sem := make(chan struct{}, 5)
	for _, pr := range pd.Pkgs {
		prog, err := c.prog(pr.Module)
		if err != nil {
			// The tree does not load (does not compile): nothing can be decided.
			fmt.Fprintf(os.Stderr, "govc: cannot load %s: %v\n", pr.Module, err)
			return 2
		}
		pp := prog.PPkgs[pr.Path]
		if pp == nil {
			fmt.Fprintf(os.Stderr, "govc: package %s not found\n", pr.Path)
			return 2
		}
		specs, err := LoadSpecsFor(prog, pr.Module, pr.Path)
		if err != nil {
			fmt.Fprintln(os.Stderr, "govc:", err)
			return 2
		}
		c.specs[pr.Path] = specs
		// functions whose contract names this property: all their verification conditions
		var fnames []string
		ownPkgs := map[string]bool{}
		for _, q := range pd.Pkgs {
			if qp, err := c.prog(q.Module); err == nil && qp.PPkgs[q.Path] != nil {
				ownPkgs[qp.PPkgs[q.Path].Name] = true
			}
		}
		for n, fs := range specs.Funcs {
			if !hasProp(fs.Props, id) {
				continue
			}
			if strings.HasPrefix(n, pp.Name+".") {
				fnames = append(fnames, n)
			} else if i := strings.Index(n, "."); i > 0 && !ownPkgs[n[:i]] && !fs.Trusted && !c.foreignDone[n] && prog.Func(strings.SplitN(n, "~", 2)[0]) != nil {
				// a contract on a function of another module (`//@ func ::pkg.F`) that is not
				// marked trusted is verified here, once, against the code this module is built with
				if c.foreignDone == nil {
					c.foreignDone = map[string]bool{}
				}
				c.foreignDone[n] = true
				fnames = append(fnames, n)
			}
		}
		sort.Strings(fnames)
		for _, n := range fnames {
			base, variant := n, ""
			if i := strings.Index(n, "~"); i >= 0 {
				base, variant = n[:i], n[i+1:]
			}
			fn := prog.Func(base)
			if fn == nil {
				all = append(all, OblResult{Name: n + "#contract:", Status: "unbound", Detail: "function not found", Func: n, Kind: "contract"})
				continue
			}
			wg.Add(1)
			go func(fn *ssa.Function, variant string) {
				defer wg.Done()
				sem <- struct{}{}
				defer func() { <-sem }()
				rs := verifyFuncVariant(prog, specs, fn, variant, tier, c, nil, nil)
				mu.Lock()
				all = append(all, rs...)
				mu.Unlock()
			}(fn, variant)
		}
		for _, l := range specs.Lemmas {
			if !hasProp(l.Props, id) {
				continue
			}
			if l.Tier == "thorough" && tier != "thorough" {
				continue
			}
			if l.Bounded != "" {
				c.mu.Lock()
				c.bounded = append(c.bounded, fmt.Sprintf("lemma %s.%s: %s", specs.PkgName, l.Name, l.Bounded))
				c.mu.Unlock()
			}
			wg.Add(1)
			go func(l *Lemma) {
				defer wg.Done()
				sem <- struct{}{}
				defer func() { <-sem }()
				rs := safeProveLemma(prog, specs, l, tier, c)
				mu.Lock()
				all = append(all, rs...)
				mu.Unlock()
			}(l)
		}
	}
	wg.Wait()
	if pd.Extra != nil {
		all = append(all, pd.Extra(c, writeBaseline)...)
	}
	sortKey := func(r OblResult) string {
		if r.Kind == "lemma" || r.Func == "" {
			return "0" + r.Name
		}
		return fmt.Sprintf("1%s\x00%06d", r.Func, r.Order)
	}
	sort.SliceStable(all, func(i, j int) bool { return sortKey(all[i]) < sortKey(all[j]) })

	if writeBaseline {
		var names []string
		for _, r := range all {
			if r.Status == "proved" {
				names = append(names, r.Name)
			} else {
				fmt.Printf("not in baseline: %s %s %s\n", r.Status, r.Name, r.Detail)
			}
		}
		os.MkdirAll(filepath.Join(verifRoot, "baseline"), 0o755)
		data, _ := json.MarshalIndent(baselineFile{Property: id, Obligations: names}, "", " ")
		os.WriteFile(filepath.Join(verifRoot, "baseline", id+".json"), append(data, '\n'), 0o644)
		fmt.Printf("baseline %s: %d obligations\n", id, len(names))
		return 0
	}

	base := loadBaseline(id)
	rematch(all, id, base)
	// Obligations of the inventory that came back undecided (time-out under load) get a
	// second, unhurried attempt before anything is reported.
	if !writeBaseline {
		var retry []int
		for i := range all {
			r := &all[i]
			if base[r.Name] && r.Status == "unknown" && r.Query != "" {
				retry = append(retry, i)
			}
		}
		// many undecided obligations at once mean the code changed, not that the machine was busy
		if len(retry) <= 16 {
			var rwg sync.WaitGroup
			rsem := make(chan struct{}, 4)
			for _, i := range retry {
				rwg.Add(1)
				go func(i int) {
					defer rwg.Done()
					rsem <- struct{}{}
					defer func() { <-rsem }()
					r := &all[i]
					rr := decide(r.Name, r.Query, 90, false)
					if rr.Status == "proved" {
						r.Status, r.Solver, r.Secs, r.Detail = "proved", rr.Solver+" (second attempt)", r.Secs+rr.Secs, ""
					}
				}(i)
			}
			rwg.Wait()
		}
	}
	known := loadKnown()
	isKnown := func(name string) *knownFinding {
		for i := range known {
			if known[i].Kind == "known" && known[i].Property == id && (known[i].Obligation == name || known[i].Obligation == sanitize(name)) {
				return &known[i]
			}
		}
		return nil
	}
	violations := 0
	var boundedOK []string
	notClaimed := 0
	discharged := 0
	var undecided, unsupportedL, knownHit []string
	seen := map[string]bool{}
	var solverSecs float64
	perSolver := map[string]int{}
	os.MkdirAll(filepath.Join(verifRoot, "replays"), 0o755)
	for i := range all {
		r := &all[i]
		seen[r.Name] = true
		solverSecs += r.Secs
		if r.Status == "proved" && r.Kind == "bounded" {
			boundedOK = append(boundedOK, r.Name)
			continue
		}
		if r.Status == "proved" {
			discharged++
			perSolver[strings.Fields(r.Solver + " ?")[0]]++
			if kf := isKnown(r.Name); kf != nil {
				fmt.Printf("NOTE: known finding no longer reproduces (stale entry): %s\n", kf.Text)
			}
			continue
		}
		if kf := isKnown(r.Name); kf != nil {
			what := strings.TrimSpace(strings.TrimPrefix(kf.Text, "known:"))
			what = strings.TrimSpace(strings.TrimPrefix(what, "property="+kf.Property))
			fmt.Printf("KNOWN-FINDING: property=%s %s\n", id, what)
			knownHit = append(knownHit, r.Name)
			continue
		}
		inBase := base[r.Name]
		if r.Status == "skipped" {
			notClaimed++
			continue
		}
		if (r.Status == "unsupported" && r.Kind == "subset" || r.Status == "unbound" && r.Kind == "contract") && !inBase {
			// a function whose obligations were discharged on the unchanged tree has left the modelled
			// subset: those obligations can no longer be established
			had := 0
			for n := range base {
				if strings.HasPrefix(n, r.Func+"#") {
					had++
				}
			}
			if had > 0 {
				r.Detail = fmt.Sprintf("%d obligations of this function were discharged on the unchanged tree; now the function is outside the modelled subset or its contract no longer binds: %s", had, r.Detail)
				inBase = true
			}
		}
		if r.Status == "unsupported" && !inBase {
			unsupportedL = append(unsupportedL, r.Name+": "+r.Detail)
			continue
		}
		var rp *Replay
		if pd.Replayer != nil {
			rp = pd.Replayer(c, r)
		}
		if rp == nil {
			rp = genericReplay(id, r)
		}
		if !inBase && !rp.Found {
			// a failed proof of an obligation that never discharged is not a violation
			undecided = append(undecided, r.Name+": "+r.Status+" "+r.Detail)
			continue
		}
		path := filepath.Join(verifRoot, "replays", fmt.Sprintf("%s_%s.json", id, sanitize(r.Name)))
		writeReplay(path, rp, r)
		violations++
		tail := ""
		if !rp.Found {
			tail = " no-failing-input-found"
		}
		fmt.Printf("FAILED obligation %s (%s) %s\n", r.Name, r.Status, r.Detail)
		fmt.Printf("VIOLATION property=%s replay=%s%s\n", id, path, tail)
	}
	// obligations of the inventory that no longer exist
	var missing []string
	for name := range base {
		if !seen[name] {
			missing = append(missing, name)
		}
	}
	sort.Strings(missing)
	for _, m := range missing {
		fmt.Printf("NOTE: obligation %s of the committed inventory was not generated on this tree (its function or contract is gone); not decided\n", m)
	}
	if len(all) == 0 {
		fmt.Println("govc: no obligations generated (vacuous check)")
		return 2
	}
	c.boundedOK = boundedOK
	writeEvidence(c, id, tier, seed, all, discharged, violations, undecided, unsupportedL, knownHit, missing, solverSecs, perSolver, time.Since(start).Seconds())
	fmt.Printf("%s %s: %d obligations, %d discharged, %d known findings, %d undecided (not claimed), %d outside subset, %d violations, %.1fs\n",
		id, tier, len(all), discharged, len(knownHit), len(undecided), len(unsupportedL), violations, time.Since(start).Seconds())
	if violations > 0 {
		return 1
	}
	return 0
}

func hasProp(ps []string, id string) bool {
	for _, p := range ps {
		if p == id {
			return true
		}
	}
	return false
}

func safeProveLemma(prog *Prog, specs *Specs, l *Lemma, tier string, c *checkCtx) (res []OblResult) {
	defer func() {
		if r := recover(); r != nil {
			// contract cannot be bound to the code (renamed function, changed signature ...)
			res = nil
			for i := range l.Ensures {
				res = append(res, OblResult{Name: fmt.Sprintf("lemma:%s.%s#%d", specs.PkgName, l.Name, i+1), Status: "unbound", Detail: fmt.Sprint(r), Lemma: l, Kind: "lemma", Site: l.Ensures[i]})
			}
		}
	}()
	res = ProveLemmaCtx(prog, specs, l, tier, c)
	return res
}

func genericReplay(id string, r *OblResult) *Replay {
	rp := &Replay{Property: id, Obligation: r.Name, Kind: r.Kind, Statement: r.Site, Functions: r.Func, Status: r.Status, Solver: r.Solver}
	rp.SolverOut = r.Detail
	if r.Model != "" {
		m := r.Model
		if len(m) > 6000 {
			m = m[:6000] + "\n... (truncated)"
		}
		rp.SolverOut += "\n" + m
	}
	rp.Explanation = "The verifier no longer discharges this obligation on the current tree. No concrete failing input was constructed."
	return rp
}

func writeReplay(path string, rp *Replay, r *OblResult) {
	if r.Query != "" {
		qf := strings.TrimSuffix(path, ".json") + ".smt2"
		os.WriteFile(qf, []byte(r.Query+"(check-sat)\n(get-model)\n"), 0o644)
		rp.QueryFile = qf
	}
	data, _ := json.MarshalIndent(rp, "", " ")
	os.WriteFile(path, append(data, '\n'), 0o644)
}

func writeEvidence(c *checkCtx, id, tier string, seed int64, all []OblResult, discharged, violations int, undecided, unsupportedL, knownHit, missing []string, solverSecs float64, perSolver map[string]int, wall float64) {
	type sample struct {
		Name   string  `json:"obligation"`
		Status string  `json:"status"`
		Solver string  `json:"solver,omitempty"`
		Secs   float64 `json:"secs"`
		Bytes  int     `json:"smt_bytes"`
		Site   string  `json:"statement,omitempty"`
	}
	var samples []sample
	for i, r := range all {
		if i%(1+len(all)/12) == 0 {
			samples = append(samples, sample{r.Name, r.Status, r.Solver, r.Secs, r.SMTBytes, r.Site})
		}
	}
	claimed := 0
	for _, r := range all {
		if r.Status != "unsupported" && r.Status != "unbound" && r.Status != "skipped" && r.Kind != "bounded" {
			claimed++
		}
	}
	claimed -= len(undecided) + len(knownHit)
	var fns, exts []string
	for f := range c.fns {
		fns = append(fns, f)
	}
	for e := range c.ext {
		exts = append(exts, e)
	}
	sort.Strings(fns)
	sort.Strings(exts)
	trusted := append([]string{}, c.prop.Trusted...)
	trusted = append(trusted, "go/packages + go/ssa (x/tools v0.29.0) construction of the SSA form that is verified", "the VC generator /verif/engine (symbolic execution of SSA, first-exit loop summaries, heap model)", "SMT solvers z3 4.8.12, z3 5.1.0, cvc5 1.0.3 (unsat answers)", "Go type and memory safety")
	for _, e := range exts {
		trusted = append(trusted, "extern model: "+e)
	}
	names := make([]map[string]any, 0, len(all))
	for _, r := range all {
		names = append(names, map[string]any{"name": r.Name, "status": r.Status, "solver": r.Solver, "secs": r.Secs})
	}
	cov := map[string]any{
		"obligations":              claimed,
		"discharged":               discharged,
		"checker_cmd":              fmt.Sprintf("/verif/bin/govc check -property %s -tier %s", id, tier),
		"trusted_base":             trusted,
		"samples":                  samples,
		"functions_under_contract": fns,
		"per_solver":               perSolver,
		"solver_seconds":           solverSecs,
		"undecided_not_claimed":    undecided,
		"outside_subset":           unsupportedL,
		"known_findings":           knownHit,
		"inventory_missing":        missing,
		"bounded":                  append(append([]string{}, c.prop.Bounded...), c.bounded...),
		"bounded_checks_passed":    c.boundedOK,
		"all_obligations":          names,
		"integer_mode":             "mathematical Int with exact Go wrap-around semantics (ite/mod) for every fixed-width operation",
	}
	if claimed == 0 {
		cov["obligations"] = len(all)
	}
	ev := map[string]any{
		"property_id": id,
		"tier":        tier,
		"seed":        seed,
		"level":       "proof",
		"coverage":    cov,
		"assumptions": assumptionsWith(c.prop.Assume, undecided),
		"wall_s":      wall,
		"violations":  violations,
	}
	evDir := filepath.Join(verifRoot, "evidence")
	if os.Getenv("GOVC_REPO") != "" {
		// a run against a scratch tree (selftest) does not describe /repo: keep its evidence apart
		evDir = filepath.Join(os.TempDir(), "govc-selftest-evidence")
	}
	os.MkdirAll(evDir, 0o755)
	data, _ := json.MarshalIndent(ev, "", " ")
	os.WriteFile(filepath.Join(evDir, id+".json"), append(data, '\n'), 0o644)
}

// baselineOrder returns the committed inventory in its stored order.
func baselineOrder(id string) []string {
	data, err := os.ReadFile(filepath.Join(verifRoot, "baseline", id+".json"))
	if err != nil {
		return nil
	}
	var b baselineFile
	if json.Unmarshal(data, &b) != nil {
		return nil
	}
	return b.Obligations
}

func oblGroup(name string) string {
	// function#kind
	if i := strings.Index(name, ":"); i > 0 && strings.Contains(name[:i], "#") {
		return name[:i]
	}
	return ""
}

// rematch keeps the identity of an obligation whose site text was edited in
// place: when a function has the same number of obligations of a kind as in
// the inventory, unmatched ones are paired by position (DESIGN 5.2(4)).
func rematch(all []OblResult, id string, base map[string]bool) {
	if base == nil {
		return
	}
	order := baselineOrder(id)
	cur := map[string][]int{}
	for i, r := range all {
		if g := oblGroup(r.Name); g != "" && r.Kind != "lemma" {
			cur[g] = append(cur[g], i)
		}
	}
	old := map[string][]string{}
	for _, n := range order {
		if g := oblGroup(n); g != "" {
			old[g] = append(old[g], n)
		}
	}
	for g, idxs := range cur {
		names := old[g]
		present := map[string]bool{}
		for _, i := range idxs {
			present[all[i].Name] = true
		}
		var freeOld []string
		for _, n := range names {
			if !present[n] {
				freeOld = append(freeOld, n)
			}
		}
		var freeCur []int
		for _, i := range idxs {
			if !base[all[i].Name] {
				freeCur = append(freeCur, i)
			}
		}
		// only when nothing was added or removed: same multiset size of unmatched on both sides
		if len(freeOld) == 0 || len(freeOld) != len(freeCur) {
			continue
		}
		for k, i := range freeCur {
			all[i].Detail = strings.TrimSpace(all[i].Detail + " (site text changed; was " + freeOld[k] + ")")
			all[i].Renamed = all[i].Name
			all[i].Name = freeOld[k]
		}
	}
}

// sweepFuncs verifies every function of the listed packages in VC mode. In
// check mode only the obligations of the committed inventory (and their
// positional re-matches) are sent to the solvers; the others are listed as
// not claimed.
func sweepFuncs(c *checkCtx, refs []pkgRef, writeBaseline bool, kinds map[string]bool) []OblResult {
	base := loadBaseline(c.prop.ID)
	var all []OblResult
	var mu sync.Mutex
	var wg sync.WaitGroup
	sem := make(chan struct{}, 6)
	for _, pr := range refs {
		prog, err := c.prog(pr.Module)
		if err != nil {
			fmt.Fprintf(os.Stderr, "govc: cannot load %s: %v\n", pr.Module, err)
			os.Exit(2)
		}
		pp := prog.PPkgs[pr.Path]
		if pp == nil {
			continue
		}
		specs := c.specs[pr.Path]
		if specs == nil {
			var err error
			specs, err = LoadSpecsFor(prog, pr.Module, pr.Path)
			if err != nil {
				fmt.Fprintln(os.Stderr, "govc:", err)
				os.Exit(2)
			}
			c.specs[pr.Path] = specs
		}
		for _, f := range prog.FuncsOfPackage(pr.Path) {
			if of := os.Getenv("GOVC_ONLYFUNC"); of != "" && !strings.HasPrefix(FuncName(f), of) {
				continue
			}
			wg.Add(1)
			go func(f *ssa.Function) {
				defer wg.Done()
				sem <- struct{}{}
				defer func() { <-sem }()
				var only map[string]bool
				if !writeBaseline && base != nil && c.tier != "thorough" {
					only = base
				}
				rs := verifyFuncFiltered(prog, specs, f, c.tier, c, kinds, only)
				mu.Lock()
				all = append(all, rs...)
				mu.Unlock()
			}(f)
		}
	}
	wg.Wait()
	return all
}

// assumptionsWith adds the standing caveat of modular verification: a discharged
// obligation that lies after a loop or a call was discharged assuming that
// loop's invariants / that callee's postconditions, including any that are
// themselves undecided.
func assumptionsWith(base []string, undecided []string) []string {
	out := append([]string{}, base...)
	var inv []string
	for _, u := range undecided {
		if strings.Contains(u, "#inv.") || strings.Contains(u, "#post:") || strings.Contains(u, "#pre:") {
			inv = append(inv, u)
		}
	}
	if len(inv) > 0 {
		if len(inv) > 6 {
			inv = append(inv[:6], fmt.Sprintf("... (%d in all, see undecided_not_claimed)", len(inv)))
		}
		out = append(out, "conditional: loop invariants, preconditions at call sites or postconditions that are undecided are still assumed where they are used (after the loop, after the call, in callers that inline the function); discharged obligations downstream hold under them: "+strings.Join(inv, " | "))
	}
	return out
}
