package main

import (
	"fmt"
	"go/ast"
	"go/parser"
	"go/token"
	"go/types"
	"os"
	"path/filepath"
	"regexp"
	"sort"
	"strconv"
	"strings"
)

// Specs are the contracts of one package, read from the comment-only file
// zz_contracts_verif.go (build tag verif) in the package directory.
type Specs struct {
	PkgPath string
	PkgName string
	File    string
	Opaque  map[string]bool
	Preds   map[string]*PredDef
	Lemmas  []*Lemma
	Funcs   map[string]*FuncSpec
	Lines   int
	// Foreign holds the exported lemmas of the other packages of the module (usable as axioms).
	Foreign   []*Lemma
	ForeignOf map[*Lemma]string // package path of a foreign lemma
}

type VarDecl struct {
	Name string
	Type string
}

type PredDef struct {
	Name   string
	Params []VarDecl
	Body   string
}

type Lemma struct {
	Name     string
	Vars     []VarDecl
	Unfold   []string
	Requires []string
	Ensures  []string
	Export   bool
	Props    []string
	Known    []KnownCarve // carve-outs for recorded findings
	Order    int
	Patterns []string
	Uses     []string
	NoInst   bool
	Bitvec   bool
	Splits   [][]string // case splits: each entry lists alternatives; the cross product gives sub-obligations
	Bounded  string     // non-empty: the lemma is a bounded stand-in (text = the bound)
	Tier     string     // "thorough": only checked in the thorough tier
	NoRead   []string   // heap fields the unfolded functions must not read (read-frame obligation)
	Closures []ClosureDecl
	Assumed  string // non-empty: not proved here; used as an axiom and listed as an assumption (text = why)
}

// ClosureDecl binds a name to a closure of the package with symbolic captured variables:
//
//	closure less = SortVersions$1(vs []Version, vers map[VersionKey]*semver.Version)
type ClosureDecl struct {
	Name string
	Fn   string
	Free []VarDecl
}

type KnownCarve struct {
	ID   string
	When string
}

type LoopSpec struct {
	Invariants []string
	Decreases  string
}

type FuncSpec struct {
	Name     string
	Params   []VarDecl
	Requires []string
	Ensures  []string
	Modifies []string
	Reads    []string // heap keys the (pure) function may read; used to frame opaque applications
	Loops    map[int]*LoopSpec
	Props    []string
	Pure     bool
	Variant  string   // non-empty: an additional contract the function is verified against (not used by callers)
	Prune    bool     // ask the solver at each branch whether the precondition rules it out
	Uses     []string // exported lemmas to load (default: all)
	Abstract []string // callees summarised by their static write set while this function is verified
	Trusted  bool
	Bitvec   bool
	Asserts  []SiteAssert
	Order    int
}

type SiteAssert struct {
	At   string
	Expr string
	Ord  int // 0: every line containing At; n>0: only the n-th such line of the function, in source order
}

var siteOrdRE = regexp.MustCompile(`"#(\d+):`)

func (f *FuncSpec) hasContract() bool {
	return len(f.Requires) > 0 || len(f.Ensures) > 0 || len(f.Modifies) > 0 || f.Pure || f.Trusted
}

const contractFile = "zz_contracts_verif.go"

// LoadSpecs reads the contract file of the package in dir.
func LoadSpecs(dir, pkgPath, pkgName string) (*Specs, error) {
	sp := &Specs{PkgPath: pkgPath, PkgName: pkgName, File: filepath.Join(dir, contractFile),
		Opaque: map[string]bool{}, Preds: map[string]*PredDef{}, Funcs: map[string]*FuncSpec{}}
	data, err := os.ReadFile(sp.File)
	if err != nil {
		if os.IsNotExist(err) {
			return sp, nil
		}
		return nil, err
	}
	var lines []string
	for _, raw := range strings.Split(string(data), "\n") {
		t := strings.TrimSpace(raw)
		if !strings.HasPrefix(t, "//@") {
			continue
		}
		body := strings.TrimPrefix(t, "//@")
		if i := strings.Index(body, " //"); i >= 0 && !strings.Contains(body[:i], "\"") {
			body = body[:i]
		}
		lines = append(lines, strings.TrimRight(body, " \t"))
	}
	sp.Lines = len(lines)
	qual := func(n string) string {
		n = strings.TrimSpace(n)
		if strings.HasPrefix(n, "::") {
			return n[2:] // fully qualified name of a function in another package
		}
		if strings.HasPrefix(n, pkgName+".") {
			return n
		}
		return pkgName + "." + n
	}
	var curL *Lemma
	var curF *FuncSpec
	var curLoop *LoopSpec
	var last *string // for continuation lines
	keywords := map[string]bool{"opaque": true, "pred": true, "lemma": true, "vars": true, "unfold": true, "requires": true, "ensures": true,
		"export": true, "property": true, "func": true, "known": true, "loop": true, "invariant": true, "decreases": true, "modifies": true,
		"pure": true, "trusted": true, "assert": true, "pattern": true, "uses": true, "noinst": true, "bitvector": true, "split": true, "bounded": true, "tier": true, "noread": true, "closure": true, "assumed": true, "reads": true, "abstract": true, "prune": true}
	for ln, l := range lines {
		f := strings.Fields(l)
		if len(f) == 0 {
			last = nil
			continue
		}
		kw := f[0]
		rest := strings.TrimSpace(strings.TrimPrefix(strings.TrimSpace(l), kw))
		if !keywords[kw] {
			if last == nil {
				return nil, fmt.Errorf("%s: contract line %d: unexpected %q", sp.File, ln+1, l)
			}
			*last += " " + strings.TrimSpace(l)
			continue
		}
		last = nil
		switch kw {
		case "opaque":
			for _, n := range strings.Fields(rest) {
				sp.Opaque[qual(n)] = true
			}
		case "pred":
			// pred name(params) = body
			i := strings.Index(rest, "(")
			j := matchParen(rest, i)
			if i < 0 || j < 0 {
				return nil, fmt.Errorf("%s: bad pred %q", sp.File, l)
			}
			pd := &PredDef{Name: strings.TrimSpace(rest[:i])}
			var err error
			pd.Params, err = parseVarDecls(rest[i+1 : j])
			if err != nil {
				return nil, err
			}
			body := strings.TrimSpace(rest[j+1:])
			body = strings.TrimPrefix(body, "=")
			pd.Body = strings.TrimSpace(body)
			sp.Preds[pkgName+"."+pd.Name] = pd
			last = &pd.Body
			curL, curF = nil, nil
		case "lemma":
			curL = &Lemma{Name: rest, Order: ln}
			curF = nil
			sp.Lemmas = append(sp.Lemmas, curL)
		case "func":
			// "func F" is the contract of F (used by its callers and for its own verification);
			// "func F ~variant" is a further contract F is verified against on its own
			// (typically with a narrower precondition); callers never see it.
			fname, variant := rest, ""
			if i := strings.Index(rest, "~"); i >= 0 {
				fname, variant = strings.TrimSpace(rest[:i]), strings.TrimSpace(rest[i+1:])
			}
			curF = &FuncSpec{Name: qual(fname), Loops: map[int]*LoopSpec{}, Order: ln, Variant: variant}
			curL, curLoop = nil, nil
			if variant != "" {
				sp.Funcs[curF.Name+"~"+variant] = curF
			} else {
				sp.Funcs[curF.Name] = curF
			}
		case "vars":
			vs, err := parseVarDecls(rest)
			if err != nil {
				return nil, fmt.Errorf("%s: %v", sp.File, err)
			}
			if curL != nil {
				curL.Vars = append(curL.Vars, vs...)
			}
		case "unfold":
			if curL != nil {
				for _, n := range strings.Fields(rest) {
					curL.Unfold = append(curL.Unfold, qual(n))
				}
			}
		case "uses":
			if curL != nil {
				curL.Uses = append(curL.Uses, strings.Fields(rest)...)
			} else if curF != nil {
				// while this function is verified, only these exported lemmas are loaded for opaque callees
				curF.Uses = append(curF.Uses, strings.Fields(strings.ReplaceAll(rest, ",", " "))...)
			}
		case "split":
			if curL != nil {
				curL.Splits = append(curL.Splits, splitTop(rest, '|'))
			}
		case "assumed":
			if curL != nil {
				curL.Assumed = rest
				if rest == "" {
					curL.Assumed = "assumed"
				}
				curL.Export = true
			}
		case "closure":
			if curL != nil {
				// closure NAME = FN(decls)
				eqi := strings.Index(rest, "=")
				pj := strings.LastIndex(rest, ")")
				pi := -1
				for d, q := 0, pj; q >= 0; q-- {
					if rest[q] == ')' {
						d++
					} else if rest[q] == '(' {
						d--
						if d == 0 {
							pi = q
							break
						}
					}
				}
				if eqi < 0 || pi < eqi || pj < 0 {
					return nil, fmt.Errorf("%s: bad closure declaration %q", sp.File, l)
				}
				free, err := parseVarDecls(rest[pi+1 : pj])
				if err != nil {
					return nil, err
				}
				curL.Closures = append(curL.Closures, ClosureDecl{Name: strings.TrimSpace(rest[:eqi]), Fn: qual(strings.TrimSpace(rest[eqi+1 : pi])), Free: free})
			}
		case "noread":
			if curL != nil {
				curL.NoRead = append(curL.NoRead, strings.Fields(rest)...)
			}
		case "tier":
			if curL != nil {
				curL.Tier = rest
			}
		case "bounded":
			if curL != nil {
				curL.Bounded = rest
			}
		case "noinst":
			if curL != nil {
				curL.NoInst = true
			}
		case "bitvector":
			if curL != nil {
				curL.Bitvec = true
			}
			if curF != nil {
				curF.Bitvec = true
			}
		case "requires":
			if curL != nil {
				curL.Requires = append(curL.Requires, rest)
				last = &curL.Requires[len(curL.Requires)-1]
			} else if curF != nil {
				curF.Requires = append(curF.Requires, rest)
				last = &curF.Requires[len(curF.Requires)-1]
			}
		case "ensures":
			if curL != nil {
				curL.Ensures = append(curL.Ensures, rest)
				last = &curL.Ensures[len(curL.Ensures)-1]
			} else if curF != nil {
				curF.Ensures = append(curF.Ensures, rest)
				last = &curF.Ensures[len(curF.Ensures)-1]
			}
		case "pattern":
			if curL != nil {
				curL.Patterns = append(curL.Patterns, rest)
			}
		case "export":
			if curL != nil {
				curL.Export = true
			}
		case "property":
			if curL != nil {
				curL.Props = append(curL.Props, strings.Fields(rest)...)
			} else if curF != nil {
				curF.Props = append(curF.Props, strings.Fields(rest)...)
			}
		case "known":
			// known KF-id when <expr>
			if curL != nil {
				parts := strings.SplitN(rest, " when ", 2)
				if len(parts) == 2 {
					curL.Known = append(curL.Known, KnownCarve{ID: strings.TrimSpace(parts[0]), When: strings.TrimSpace(parts[1])})
					last = &curL.Known[len(curL.Known)-1].When
				}
			}
		case "loop":
			if curF != nil {
				var n int
				fmt.Sscanf(rest, "%d", &n)
				curLoop = &LoopSpec{}
				curF.Loops[n] = curLoop
			}
		case "invariant":
			if curLoop != nil {
				curLoop.Invariants = append(curLoop.Invariants, rest)
				last = &curLoop.Invariants[len(curLoop.Invariants)-1]
			}
		case "decreases":
			if curLoop != nil {
				curLoop.Decreases = rest
			}
		case "modifies":
			if curF != nil {
				curF.Modifies = append(curF.Modifies, strings.Fields(strings.ReplaceAll(rest, ",", " "))...)
				if len(curF.Modifies) == 0 {
					curF.Modifies = []string{}
				}
			}
		case "reads":
			if curF != nil {
				curF.Reads = append(curF.Reads, strings.Fields(strings.ReplaceAll(rest, ",", " "))...)
			}
		case "prune":
			if curF != nil {
				curF.Prune = true
			}
		case "abstract":
			// abstract F G: while verifying this function, calls of F and G are replaced by
			// "everything they may write is unknown afterwards, the result is unknown" (no inlining)
			if curF != nil {
				curF.Abstract = append(curF.Abstract, strings.Fields(strings.ReplaceAll(rest, ",", " "))...)
			}
		case "pure":
			if curF != nil {
				curF.Pure = true
			}
		case "trusted":
			if curF != nil {
				curF.Trusted = true
			}
		case "assert":
			if curF != nil {
				// assert at "text": expr
				if m := siteOrdRE.FindStringSubmatchIndex(rest); strings.HasPrefix(rest, "at \"") && m != nil && (strings.Index(rest, "\":") < 0 || m[0] < strings.Index(rest, "\":")) {
					// assert at "text"#n: expr  (only the n-th line of the function containing the text)
					n, _ := strconv.Atoi(rest[m[2]:m[3]])
					curF.Asserts = append(curF.Asserts, SiteAssert{At: rest[4:m[0]], Expr: strings.TrimSpace(rest[m[1]:]), Ord: n})
					last = &curF.Asserts[len(curF.Asserts)-1].Expr
				} else if i := strings.Index(rest, "\":"); strings.HasPrefix(rest, "at \"") && i > 0 {
					curF.Asserts = append(curF.Asserts, SiteAssert{At: rest[4:i], Expr: strings.TrimSpace(rest[i+2:])})
					last = &curF.Asserts[len(curF.Asserts)-1].Expr
				}
			}
		}
	}
	return sp, nil
}

func matchParen(s string, i int) int {
	if i < 0 {
		return -1
	}
	d := 0
	for j := i; j < len(s); j++ {
		switch s[j] {
		case '(':
			d++
		case ')':
			d--
			if d == 0 {
				return j
			}
		}
	}
	return -1
}

// parseVarDecls parses "a, b *Version; sys System".
func parseVarDecls(s string) ([]VarDecl, error) {
	s = strings.ReplaceAll(s, ";", ",")
	src := "package p\nfunc _(" + s + ") {}"
	f, err := parser.ParseFile(token.NewFileSet(), "", src, 0)
	if err != nil {
		return nil, fmt.Errorf("bad variable declarations %q: %v", s, err)
	}
	fd := f.Decls[0].(*ast.FuncDecl)
	var out []VarDecl
	for _, fld := range fd.Type.Params.List {
		ts := types.ExprString(fld.Type)
		for _, n := range fld.Names {
			out = append(out, VarDecl{n.Name, ts})
		}
	}
	return out, nil
}

// LoadSpecsFor loads the contracts of package pkgPath and merges in the
// contracts (function specs, opaque marks, predicates, exported lemmas) of
// every other package of the loaded program that has a contract file, so that
// a caller in one package can use the contract of a callee in another.
func LoadSpecsFor(prog *Prog, module, pkgPath string) (*Specs, error) {
	pp := prog.PPkgs[pkgPath]
	if pp == nil {
		return nil, fmt.Errorf("package %s not loaded", pkgPath)
	}
	main, err := LoadSpecs(prog.Dir+"/"+relDir(module, pkgPath), pkgPath, pp.Name)
	if err != nil {
		return nil, err
	}
	main.ForeignOf = map[*Lemma]string{}
	prefix := "deps.dev/" + module
	var paths []string
	for path := range prog.PPkgs {
		if path != pkgPath && strings.HasPrefix(path, prefix) {
			paths = append(paths, path)
		}
	}
	sort.Strings(paths)
	for _, path := range paths {
		op := prog.PPkgs[path]
		dir := prog.Dir + "/" + relDir(module, path)
		if _, err := os.Stat(filepath.Join(dir, contractFile)); err != nil {
			continue
		}
		other, err := LoadSpecs(dir, path, op.Name)
		if err != nil {
			return nil, err
		}
		for k, v := range other.Funcs {
			if _, dup := main.Funcs[k]; !dup {
				main.Funcs[k] = v
			}
		}
		for k := range other.Opaque {
			main.Opaque[k] = true
		}
		for k, v := range other.Preds {
			main.Preds[k] = v
		}
		for _, l := range other.Lemmas {
			if l.Export {
				fl := *l
				fl.Order = -1
				main.Foreign = append(main.Foreign, &fl)
				main.ForeignOf[&fl] = path
			}
		}
	}
	return main, nil
}
