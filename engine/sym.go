package main

import (
	"fmt"
	"go/constant"
	"go/token"
	"go/types"
	"regexp"
	"sort"
	"strings"
	"sync"

	"golang.org/x/tools/go/ssa"
)

// State is the symbolic state at a program point: reach condition, heap
// arrays and the contents of non-escaping locals.
type State struct {
	cond  string
	heap  map[string]string
	cells map[*Cell]Val
	// log of havocs by key pattern: a heap key first touched after such a havoc
	// must not be read as the initial heap
	log []havocRec
	// ver identifies the heap contents an opaque (symbolic) function application may depend on:
	// it changes whenever the heap is written or havocked (VC mode).
	vers map[string]int
}

type havocRec struct {
	re *regexp.Regexp
	id int
}

// baseName is the name of the (unknown) content of a heap key that has not
// been touched yet in state st.
func (st *State) baseName(key string) string {
	for i := len(st.log) - 1; i >= 0; i-- {
		if st.log[i].re.MatchString(key) {
			return fmt.Sprintf("Hv%d.%s", st.log[i].id, sanitize(key))
		}
	}
	return "H0." + sanitize(key)
}

func (s *State) clone() *State {
	n := &State{cond: s.cond, heap: make(map[string]string, len(s.heap)), cells: make(map[*Cell]Val, len(s.cells)), log: s.log, vers: s.vers}
	for k, v := range s.heap {
		n.heap[k] = v
	}
	for k, v := range s.cells {
		n.cells[k] = v
	}
	return n
}

// Obligation is one verification condition: Goal must hold whenever Cond
// does, given the first Prefix lines of the script.
type Obligation struct {
	Name   string
	Kind   string
	Site   string
	Pos    token.Pos
	Prefix int
	Cond   string
	Goal   string
	Func   string
}

type quant struct {
	class  string // loop class; instantiated at witnesses of the same class ("" = all)
	guard  string // outer guard (no parameter)
	fn     string // name of a (Int)->Bool definition
	lo, hi string // optional bounds ("" = unbounded)
	pol    int    // polarity of a user quantifier inside the formula it occurs in (+1 positive)
	key    string // frame facts: the heap key they speak about
	line   int    // script length when the quantifier was introduced
}

// point is a term at which quantified facts are instantiated.
type point struct {
	term  string
	class string
	line  int
	typ   string // ref/arr points: type key of the object / of the array's elements ("" = unknown)
	key   string // frame skolems: the heap key they belong to
}

// X is one symbolic execution context (one script).
type X struct {
	prog *Prog
	sc   *Script
	tags *tagTable
	st   *State
	mode execMode

	obls           []*Obligation
	quants         []quant
	witnesses      []string
	points         []point
	pointSeen      map[string]bool
	rangeWitness   map[string]bool
	rangeClass     map[string]bool
	witClass       map[string]string
	curClass       string
	heapSorts      map[string]string
	touched        map[string]bool // heap keys read or written (read-set computation)
	written        map[string]bool
	cellN          int
	stack          []*ssa.Function
	opaque         map[string]bool // functions referenced by symbol
	usedOpq        map[string]*ssa.Function
	externs        map[string]bool // extern models used
	assumes        []string        // descriptions of assumptions (evidence)
	strLits        map[string]string
	siteCount      map[string]int
	interior       map[string]int
	specs          *Specs
	curFn          string // function under contract for obligation naming
	noOblig        int    // >0: do not record obligations (inside summaries)
	callDepth      int
	inline         bool // export mode: no definitions
	unfold         map[string]bool
	globObjs       map[*ssa.Global]string
	wsMemo         map[*ssa.Function]*writeSet
	wsBusy         map[*ssa.Function]bool
	polarity       int
	noFacts        int
	entryState     *State
	pruneCalls     int
	pruneSecs      float64
	firedAsserts   map[int]bool
	rsMemo         map[*ssa.Function]*writeSet
	rsBusy         map[*ssa.Function]bool
	topSpec        *FuncSpec // contract of the function under verification
	prune          bool      // drop branches the assumptions rule out (functions under contract)
	pruned         int
	usesOnly       map[string]bool
	abstractCallee map[string]bool
	iaSeen         map[string]bool
	peel           bool // try to peel loops without contract (functions under contract only)
	retHook        func(v Val)
	siteAsserts    []SiteAssert
	axiomVer       int
	arbs           map[string]TV
	axDone         map[string]bool
	readPats       map[string]*regexp.Regexp
	sideConds      []sideCond
}

// sideCond is a program point outside the modelled subset; the lemma or VC
// is only valid if the point is unreachable under its assumptions.
type sideCond struct {
	cond string
	why  string
}

type execMode int

const (
	modeSummary execMode = iota // pure functions, first-exit loops summarised by witnesses
	modeVC                      // loops cut at invariants, obligations recorded
)

func NewX(prog *Prog, specs *Specs, mode execMode) *X {
	x := &X{prog: prog, sc: NewScript(), tags: newTagTable(), mode: mode,
		heapSorts: map[string]string{}, touched: map[string]bool{}, written: map[string]bool{},
		opaque: map[string]bool{}, usedOpq: map[string]*ssa.Function{}, externs: map[string]bool{},
		strLits: map[string]string{}, witClass: map[string]string{}, siteCount: map[string]int{}, interior: map[string]int{}, specs: specs}
	x.st = &State{cond: "true", heap: map[string]string{}, cells: map[*Cell]Val{}}
	x.prelude()
	if specs != nil {
		for f := range specs.Opaque {
			x.opaque[f] = true
		}
	}
	return x
}

func (x *X) prelude() {
	sc := x.sc
	sc.Declare("gs.len", []string{SStr}, SInt)
	sc.Declare("gs.at", []string{SStr, SInt}, SInt)
	sc.add("(define-fun gs.empty () Real 0.0)")
	sc.Assert("(forall ((s Real)) (! (and (>= (gs.len s) 0) (<= (gs.len s) 4611686018427387904)) :pattern ((gs.len s))))")
	sc.Assert("(forall ((s Real)) (! (= (= (gs.len s) 0) (= s gs.empty)) :pattern ((gs.len s))))")
	sc.Assert("(forall ((s Real) (i Int)) (! (and (<= 0 (gs.at s i)) (<= (gs.at s i) 255)) :pattern ((gs.at s i))))")
	// arrays inside objects: identity ia.id(slot, owner) < 0, from which owner and slot can be read back
	sc.Declare("ia.id", []string{SInt, SInt}, SInt)
	sc.Declare("ia.owner", []string{SInt}, SInt)
	sc.Declare("ia.slot", []string{SInt}, SInt)
	sc.Declare("ALLOC0", nil, arrSort(SBool))
	x.st.heap["ALLOC"] = "ALLOC0"
	x.heapSorts["ALLOC"] = arrSort(SBool)
	sc.Assert("(not (select ALLOC0 0))")
}

// assume adds a fact. Inside a parametrised region the fact is universally
// quantified over the parameter and registered for instantiation.
func (x *X) assume(t string) {
	if t == "true" {
		return
	}
	if x.inline {
		return
	}
	if p := x.sc.paramName; p != "" && strings.Contains(t, p) {
		if x.noFacts > 0 {
			return // type-range facts inside a specification quantifier: not needed, dropped (sound)
		}
		save := x.sc.paramName
		ref := x.sc.Define("fact", SBool, t)
		name := strings.TrimSuffix(strings.TrimPrefix(ref, "("), " "+save+")")
		x.quants = append(x.quants, quant{guard: "true", fn: name, class: x.curClass, line: len(x.sc.lines) + 1})
		x.sc.paramName = ""
		x.sc.add(fmt.Sprintf("(assert (forall ((%s Int)) (%s %s))) ;@inst", save, name, save))
		x.sc.paramName = save
		return
	}
	x.sc.Assert(t)
}

func (x *X) fresh(hint, sort string) string {
	if p := x.sc.paramName; p != "" && !x.inline {
		x.sc.n++
		name := fmt.Sprintf("%s!%d", sanitize(hint), x.sc.n)
		x.sc.Declare(name, []string{SInt}, sort)
		return "(" + name + " " + p + ")"
	}
	return x.sc.Fresh(hint, sort)
}

func (x *X) define(hint, sort, term string) string {
	if x.inline {
		return term
	}
	return x.sc.Define(hint, sort, term)
}

// ---- sorts and shapes ----

func (x *X) leafSort(t types.Type) string {
	switch kindOf(t) {
	case kBool:
		return SBool
	case kInt, kPointer, kMap:
		return SInt
	case kString:
		return SStr
	case kFloat:
		return SReal
	}
	unsup("no scalar sort for %s", t)
	return ""
}

func (x *X) strLit(s string) string {
	if s == "" {
		return "gs.empty"
	}
	if n, ok := x.strLits[s]; ok {
		return n
	}
	name := fmt.Sprintf("gs.lit%d", len(x.strLits))
	x.strLits[s] = name
	x.sc.Declare(name, nil, SStr)
	return name
}

// emitStrLits declares the literal strings used, with their order, lengths
// and bytes. Called when a query is assembled (literals may be discovered late).
func (x *X) strLitDecls() string { return x.strLitDeclsFor("") }

// strLitDeclsFor restricts the facts to the literals declared in prefix
// (all of them when prefix is empty).
func (x *X) strLitDeclsFor(prefix string) string {
	var lits []string
	for s, n := range x.strLits {
		if prefix != "" && !strings.Contains(prefix, "(declare-fun "+n+" ") {
			continue
		}
		lits = append(lits, s)
	}
	sort.Strings(lits)
	var b strings.Builder
	prev := "gs.empty"
	for _, s := range lits {
		n := x.strLits[s]
		fmt.Fprintf(&b, "(assert (< %s %s))\n", prev, n)
		prev = n
		fmt.Fprintf(&b, "(assert (= (gs.len %s) %d))\n", n, len(s))
		for i := 0; i < len(s) && i < 64; i++ {
			fmt.Fprintf(&b, "(assert (= (gs.at %s %d) %d))\n", n, i, s[i])
		}
	}
	// A string of length 1 is determined by its byte; order of one-byte strings follows the byte.
	return b.String()
}

func (x *X) zero(t types.Type) Val {
	switch kindOf(t) {
	case kBool:
		return S{"false", SBool}
	case kInt:
		return S{"0", SInt}
	case kString:
		return S{"gs.empty", SStr}
	case kFloat:
		return S{"0.0", SReal}
	case kPointer:
		var root types.Type
		if pt, ok := t.Underlying().(*types.Pointer); ok {
			root = pt.Elem()
		}
		return Ptr{Kind: pObj, Obj: "0", Root: root}
	case kSlice:
		return Slice{"0", "0", "0", "0"}
	case kStruct:
		st := t.Underlying().(*types.Struct)
		tv := Tup{}
		for i := 0; i < st.NumFields(); i++ {
			tv.E = append(tv.E, x.zero(st.Field(i).Type()))
		}
		return tv
	case kArray:
		at := t.Underlying().(*types.Array)
		es := x.leafSort(at.Elem())
		z := x.zero(at.Elem()).(S)
		return S{fmt.Sprintf("((as const %s) %s)", arrSort(es), z.T), arrSort(es)}
	case kIface:
		return Iface{"0", "0"}
	case kMap:
		return MapV{"0"}
	case kFunc:
		return Clo{}
	}
	unsup("zero value of %s", t)
	return nil
}

// freshVal returns an unconstrained value of type t (with the facts its type
// guarantees).
func (x *X) freshVal(t types.Type, hint string) Val {
	switch kindOf(t) {
	case kBool:
		return S{x.fresh(hint, SBool), SBool}
	case kInt:
		v := x.fresh(hint, SInt)
		x.assumeIntRange(v, t)
		return S{v, SInt}
	case kString:
		v := x.fresh(hint, SStr)
		x.assumeStr(v)
		return S{v, SStr}
	case kFloat:
		return S{x.fresh(hint, SReal), SReal}
	case kPointer:
		pt, ok := t.Underlying().(*types.Pointer)
		if !ok {
			return Ptr{Kind: pObj, Obj: "0"}
		}
		v := x.fresh(hint, SInt)
		x.assumeRefT(v, pt.Elem())
		return Ptr{Kind: pObj, Obj: v, Root: pt.Elem()}
	case kSlice:
		s := Slice{x.fresh(hint+".arr", SInt), x.fresh(hint+".off", SInt), x.fresh(hint+".len", SInt), x.fresh(hint+".cap", SInt)}
		x.assumeSliceT(s, t.Underlying().(*types.Slice).Elem())
		return s
	case kStruct:
		st := t.Underlying().(*types.Struct)
		tv := Tup{}
		for i := 0; i < st.NumFields(); i++ {
			tv.E = append(tv.E, x.freshVal(st.Field(i).Type(), hint+"."+st.Field(i).Name()))
		}
		return tv
	case kArray:
		at := t.Underlying().(*types.Array)
		es := x.leafSort(at.Elem())
		return S{x.fresh(hint, arrSort(es)), arrSort(es)}
	case kIface:
		tag := x.fresh(hint+".tag", SInt)
		ref := x.fresh(hint+".ref", SInt)
		x.assume(fmt.Sprintf("(>= %s 0)", tag))
		x.addPoint(ref, "ref")
		return Iface{tag, ref}
	case kMap:
		v := x.fresh(hint, SInt)
		x.assumeRefT(v, t)
		return MapV{v}
	case kTuple:
		tt := t.(*types.Tuple)
		tv := Tup{}
		for i := 0; i < tt.Len(); i++ {
			tv.E = append(tv.E, x.freshVal(tt.At(i).Type(), fmt.Sprintf("%s.%d", hint, i)))
		}
		return tv
	case kFunc:
		return Clo{}
	}
	unsup("fresh value of %s", t)
	return nil
}

func (x *X) assumeIntRange(v string, t types.Type) {
	lo, hi := intBounds(t)
	x.assume(fmt.Sprintf("(and (<= %s %s) (<= %s %s))", lo, v, v, hi))
}

func (x *X) assumeStr(v string) {
	x.assume(fmt.Sprintf("(and (>= %s 0.0) (<= 0 (gs.len %s)) (<= (gs.len %s) 4611686018427387904))", v, v, v))
}

func (x *X) assumeRef(v string) { x.assumeRefT(v, nil) }

// assumeRefT: v is nil or an existing object; t (if known) is the type of the object.
func (x *X) assumeRefT(v string, t types.Type) {
	typ := ""
	if t != nil {
		typ = typeKey(t)
	}
	x.addPointT(v, "ref", typ, "")
	x.assume(fmt.Sprintf("(and (>= %s 0) (or (= %s 0) (select %s %s)))", v, v, x.heapCur("ALLOC", arrSort(SBool)), v))
}

func (x *X) assumeSlice(s Slice) { x.assumeSliceT(s, nil) }

func (x *X) assumeSliceT(s Slice, elem types.Type) {
	typ := ""
	if elem != nil {
		typ = typeKey(elem)
	}
	x.addPointT(s.Arr, "arr", typ, "")
	x.assume(fmt.Sprintf("(and (<= 0 %s) (<= 0 %s) (<= %s %s) (<= (+ %s %s) 4611686018427387904))", s.Off, s.Len, s.Len, s.Cap, s.Off, s.Cap))
	// the backing array exists already (interior arrays of objects have negative identities)
	x.assume(fmt.Sprintf("(or (<= %s 0) (select %s %s))", s.Arr, x.heapCur("ALLOC", arrSort(SBool)), s.Arr))
	// an array inside an object (negative identity -(64*owner+n)) belongs to an existing object
	x.assume(fmt.Sprintf("(or (>= %s 0) (select %s (ia.owner %s)))", s.Arr, x.heapCur("ALLOC", arrSort(SBool)), s.Arr))
}

// flatten lists the scalar components of a value (first-class values only).
func (x *X) flatten(v Val) []S {
	switch v := v.(type) {
	case S:
		return []S{v}
	case Tup:
		var out []S
		for _, e := range v.E {
			out = append(out, x.flatten(e)...)
		}
		return out
	case Slice:
		return []S{{v.Arr, SInt}, {v.Off, SInt}, {v.Len, SInt}, {v.Cap, SInt}}
	case Iface:
		return []S{{v.Tag, SInt}, {v.Ref, SInt}}
	case MapV:
		return []S{{v.Ref, SInt}}
	case Ptr:
		if v.Kind == pObj && len(v.Path) == 0 {
			return []S{{v.Obj, SInt}}
		}
		unsup("interior or local pointer used as a first-class value")
	case Clo:
		unsup("function value used as a first-class value")
	}
	unsup("flatten %T", v)
	return nil
}

// rebuild is the inverse of flatten for type t.
func (x *X) rebuild(t types.Type, ss []S) (Val, []S) {
	switch kindOf(t) {
	case kBool, kInt, kString, kFloat, kArray:
		return ss[0], ss[1:]
	case kPointer:
		var root types.Type
		if pt, ok := t.Underlying().(*types.Pointer); ok {
			root = pt.Elem()
		}
		return Ptr{Kind: pObj, Obj: ss[0].T, Root: root}, ss[1:]
	case kMap:
		return MapV{ss[0].T}, ss[1:]
	case kSlice:
		return Slice{ss[0].T, ss[1].T, ss[2].T, ss[3].T}, ss[4:]
	case kIface:
		return Iface{ss[0].T, ss[1].T}, ss[2:]
	case kStruct:
		st := t.Underlying().(*types.Struct)
		tv := Tup{}
		for i := 0; i < st.NumFields(); i++ {
			var e Val
			e, ss = x.rebuild(st.Field(i).Type(), ss)
			tv.E = append(tv.E, e)
		}
		return tv, ss
	case kTuple:
		tt := t.(*types.Tuple)
		tv := Tup{}
		for i := 0; i < tt.Len(); i++ {
			var e Val
			e, ss = x.rebuild(tt.At(i).Type(), ss)
			tv.E = append(tv.E, e)
		}
		return tv, ss
	}
	unsup("rebuild %s", t)
	return nil, nil
}

// mergeVals builds ite(c, a, b) componentwise.
func (x *X) mergeVals(c string, a, b Val) Val {
	if c == "true" {
		return a
	}
	if c == "false" {
		return b
	}
	switch av := a.(type) {
	case S:
		bv := b.(S)
		return S{ite(c, av.T, bv.T), av.Sort}
	case Tup:
		bv := b.(Tup)
		out := Tup{}
		for i := range av.E {
			out.E = append(out.E, x.mergeVals(c, av.E[i], bv.E[i]))
		}
		return out
	case Slice:
		bv := b.(Slice)
		return Slice{ite(c, av.Arr, bv.Arr), ite(c, av.Off, bv.Off), ite(c, av.Len, bv.Len), ite(c, av.Cap, bv.Cap)}
	case Iface:
		bv := b.(Iface)
		return Iface{ite(c, av.Tag, bv.Tag), ite(c, av.Ref, bv.Ref)}
	case MapV:
		return MapV{ite(c, av.Ref, b.(MapV).Ref)}
	case Ptr:
		bv, ok := b.(Ptr)
		if !ok {
			unsup("merge of pointer with %T", b)
		}
		if av.Kind == bv.Kind && samePath(av.Path, bv.Path) {
			switch av.Kind {
			case pObj:
				root := av.Root
				if root == nil {
					root = bv.Root
				}
				return Ptr{Kind: pObj, Obj: ite(c, av.Obj, bv.Obj), Root: root, Path: av.Path}
			case pCell:
				if av.Cell == bv.Cell {
					return av
				}
			case pElem:
				return Ptr{Kind: pElem, Arr: ite(c, av.Arr, bv.Arr), Idx: ite(c, av.Idx, bv.Idx), Root: av.Root, Path: av.Path}
			case pGlobal:
				if av.Glob == bv.Glob {
					return av
				}
			}
		}
		unsup("merge of pointers to different kinds of location")
	case Clo:
		bv, ok := b.(Clo)
		if ok && bv.Fn == av.Fn && len(av.Free) == 0 && len(bv.Free) == 0 {
			return av
		}
		if ok && av.Fn == nil {
			return bv
		}
		if ok && bv.Fn == nil {
			return av
		}
		if ok {
			return CloSet{Alts: []cloAlt{{c, av}, {"true", bv}}}
		}
		if bs, isSet := b.(CloSet); isSet {
			return CloSet{Alts: append([]cloAlt{{c, av}}, bs.Alts...)}
		}
		unsup("merge of different function values")
	case CloSet:
		var rest []cloAlt
		switch bv := b.(type) {
		case Clo:
			rest = []cloAlt{{"true", bv}}
		case CloSet:
			rest = bv.Alts
		default:
			unsup("merge of function values")
		}
		var out []cloAlt
		for _, a := range av.Alts {
			out = append(out, cloAlt{and(c, a.Cond), a.C})
		}
		return CloSet{Alts: append(out, rest...)}
	case nil:
		return b
	}
	unsup("merge %T", a)
	return nil
}

func samePath(a, b []int) bool {
	if len(a) != len(b) {
		return false
	}
	for i := range a {
		if a[i] != b[i] {
			return false
		}
	}
	return true
}

// nameVal gives compound components names to keep terms small.
func (x *X) nameVal(hint string, v Val) Val {
	switch v := v.(type) {
	case S:
		return S{x.define(hint, v.Sort, v.T), v.Sort}
	case Tup:
		out := Tup{}
		for i, e := range v.E {
			out.E = append(out.E, x.nameVal(fmt.Sprintf("%s.%d", hint, i), e))
		}
		return out
	case Slice:
		return Slice{x.define(hint+".arr", SInt, v.Arr), x.define(hint+".off", SInt, v.Off), x.define(hint+".len", SInt, v.Len), x.define(hint+".cap", SInt, v.Cap)}
	case Iface:
		return Iface{x.define(hint+".tag", SInt, v.Tag), x.define(hint+".ref", SInt, v.Ref)}
	case MapV:
		return MapV{x.define(hint, SInt, v.Ref)}
	case Ptr:
		switch v.Kind {
		case pObj:
			v.Obj = x.define(hint, SInt, v.Obj)
		case pElem:
			v.Arr = x.define(hint+".arr", SInt, v.Arr)
			v.Idx = x.define(hint+".idx", SInt, v.Idx)
		}
		return v
	}
	return v
}

// substVal replaces token from by to in every term of v.
func substVal(v Val, from, to string) Val {
	r := func(s string) string { return replaceTok(s, from, to) }
	switch v := v.(type) {
	case S:
		return S{r(v.T), v.Sort}
	case Tup:
		out := Tup{}
		for _, e := range v.E {
			out.E = append(out.E, substVal(e, from, to))
		}
		return out
	case Slice:
		return Slice{r(v.Arr), r(v.Off), r(v.Len), r(v.Cap)}
	case Iface:
		return Iface{r(v.Tag), r(v.Ref)}
	case MapV:
		return MapV{r(v.Ref)}
	case Ptr:
		v.Obj, v.Arr, v.Idx = r(v.Obj), r(v.Arr), r(v.Idx)
		return v
	case Clo:
		out := Clo{Fn: v.Fn, Recv: v.Recv}
		for _, f := range v.Free {
			out.Free = append(out.Free, substVal(f, from, to))
		}
		if v.Recv != nil {
			out.Recv = substVal(v.Recv, from, to)
		}
		return out
	}
	return v
}

// ---- heap ----

type loc struct {
	key      string   // key prefix
	idx      []string // index terms
	idxSorts []string // sorts of the index terms (nil = all Int)
	arrayObj bool     // the designated object is itself an array (its Ref is the array identity)
}

func (x *X) heapCur(key, sort string) string {
	if t, ok := x.st.heap[key]; ok {
		return t
	}
	if old, ok := x.heapSorts[key]; ok && old != sort {
		panic(fmt.Sprintf("heap key %s used at sorts %s and %s", key, old, sort))
	}
	x.heapSorts[key] = sort
	name := x.st.baseName(key)
	x.sc.Declare(name, nil, sort)
	x.st.heap[key] = name
	return name
}

func heapSortFor(l loc, leaf string) string {
	s := leaf
	for i := len(l.idx) - 1; i >= 0; i-- {
		is := SInt
		if l.idxSorts != nil {
			is = l.idxSorts[i]
		}
		s = "(Array " + is + " " + s + ")"
	}
	return s
}

// nestedStore builds the array h updated at idx[0..] with v.
func nestedStore(h string, idx []string, v string) string {
	if len(idx) == 0 {
		return v
	}
	if len(idx) == 1 {
		return fmt.Sprintf("(store %s %s %s)", h, idx[0], v)
	}
	return fmt.Sprintf("(store %s %s %s)", h, idx[0], nestedStore("(select "+h+" "+idx[0]+")", idx[1:], v))
}

func (x *X) readLeaf(l loc, suffix, leaf string) string {
	key := l.key + suffix
	x.touched[key] = true
	h := x.heapCur(key, heapSortFor(l, leaf))
	t := h
	for _, i := range l.idx {
		t = "(select " + t + " " + i + ")"
	}
	return t
}

func (x *X) writeLeaf(l loc, suffix, leaf, v string) {
	key := l.key + suffix
	x.touched[key] = true
	x.written[key] = true
	h := x.heapCur(key, heapSortFor(l, leaf))
	nt := nestedStore(h, l.idx, v)
	x.bumpHeapVersion(key)
	x.st.heap[key] = x.define("h."+key, heapSortFor(l, leaf), nt)
}

func (l loc) field(name string) loc {
	return loc{key: l.key + "." + name, idx: l.idx, idxSorts: l.idxSorts}
}

func (x *X) interiorArr(l loc) string {
	if l.arrayObj {
		return l.idx[0]
	}
	if len(l.idx) == 0 {
		// array inside a package-level variable: a fixed array identity
		name := "GA$" + sanitize(l.key)
		if _, ok := x.sc.declared[name]; !ok {
			x.sc.Declare(name, nil, SInt)
			x.sc.Assert(fmt.Sprintf("(and (< %s (- 1000000)) (> %s (- 2000000)))", name, name))
			for other := range x.sc.declared {
				if strings.HasPrefix(other, "GA$") && other != name {
					x.sc.Assert(fmt.Sprintf("(not (= %s %s))", name, other))
				}
			}
		}
		return name
	}
	if len(l.idx) != 1 {
		unsup("array nested in slice element or global")
	}
	n, ok := x.interior[l.key]
	if !ok {
		n = len(x.interior) + 1
		x.interior[l.key] = n
	}
	id := fmt.Sprintf("(ia.id %d %s)", n, l.idx[0])
	if !x.iaSeen[id] {
		if x.iaSeen == nil {
			x.iaSeen = map[string]bool{}
		}
		x.iaSeen[id] = true
		x.sc.Assert(fmt.Sprintf("(and (< %s (- 2000000)) (= (ia.owner %s) %s) (= (ia.slot %s) %d))", id, id, l.idx[0], id, n))
	}
	x.addPoint(id, "arr")
	return id
}

func elemLoc(elem types.Type, arr, idx string) loc {
	return loc{key: "E:" + typeKey(elem), idx: []string{arr, idx}}
}

func objLoc(root types.Type, ref string) loc {
	_, isArr := root.Underlying().(*types.Array)
	return loc{key: "H:" + typeKey(root), idx: []string{ref}, arrayObj: isArr}
}

func (x *X) loadAt(l loc, t types.Type) Val {
	switch kindOf(t) {
	case kBool, kFloat:
		return S{x.readLeaf(l, "", x.leafSort(t)), x.leafSort(t)}
	case kString:
		v := x.readLeaf(l, "", SStr)
		x.assumeStr(v)
		return S{v, SStr}
	case kInt:
		v := x.readLeaf(l, "", SInt)
		x.assumeIntRange(v, t)
		return S{v, SInt}
	case kPointer:
		v := x.readLeaf(l, "", SInt)
		x.assumeRefT(v, t.Underlying().(*types.Pointer).Elem())
		return Ptr{Kind: pObj, Obj: v, Root: t.Underlying().(*types.Pointer).Elem()}
	case kMap:
		v := x.readLeaf(l, "", SInt)
		x.assumeRefT(v, t)
		return MapV{v}
	case kSlice:
		s := Slice{x.readLeaf(l, "#arr", SInt), x.readLeaf(l, "#off", SInt), x.readLeaf(l, "#len", SInt), x.readLeaf(l, "#cap", SInt)}
		x.assumeSliceT(s, t.Underlying().(*types.Slice).Elem())
		return s
	case kIface:
		tag := x.readLeaf(l, "#tag", SInt)
		x.assume("(>= " + tag + " 0)")
		ref := x.readLeaf(l, "#ref", SInt)
		x.addPoint(ref, "ref")
		return Iface{tag, ref}
	case kStruct:
		st := t.Underlying().(*types.Struct)
		tv := Tup{}
		for i := 0; i < st.NumFields(); i++ {
			tv.E = append(tv.E, x.loadAt(l.field(st.Field(i).Name()), st.Field(i).Type()))
		}
		return tv
	case kArray:
		at := t.Underlying().(*types.Array)
		es := x.leafSort(at.Elem())
		id := x.interiorArr(l)
		el := elemLoc(at.Elem(), id, "0")
		x.touched[el.key] = true
		h := x.heapCur(el.key, arr2Sort(es))
		return S{"(select " + h + " " + id + ")", arrSort(es)}
	}
	unsup("load of %s", t)
	return nil
}

func (x *X) storeAt(l loc, t types.Type, v Val) {
	switch kindOf(t) {
	case kBool, kString, kFloat, kInt:
		x.writeLeaf(l, "", x.leafSort(t), v.(S).T)
	case kPointer:
		p, ok := v.(Ptr)
		if !ok || p.Kind != pObj || len(p.Path) != 0 {
			unsup("store of interior/local pointer into the heap")
		}
		x.writeLeaf(l, "", SInt, p.Obj)
	case kMap:
		x.writeLeaf(l, "", SInt, v.(MapV).Ref)
	case kSlice:
		s := v.(Slice)
		x.writeLeaf(l, "#arr", SInt, s.Arr)
		x.writeLeaf(l, "#off", SInt, s.Off)
		x.writeLeaf(l, "#len", SInt, s.Len)
		x.writeLeaf(l, "#cap", SInt, s.Cap)
	case kIface:
		i := v.(Iface)
		x.writeLeaf(l, "#tag", SInt, i.Tag)
		x.writeLeaf(l, "#ref", SInt, i.Ref)
	case kStruct:
		st := t.Underlying().(*types.Struct)
		tv := v.(Tup)
		for i := 0; i < st.NumFields(); i++ {
			x.storeAt(l.field(st.Field(i).Name()), st.Field(i).Type(), tv.E[i])
		}
	case kArray:
		at := t.Underlying().(*types.Array)
		es := x.leafSort(at.Elem())
		id := x.interiorArr(l)
		el := elemLoc(at.Elem(), id, "0")
		x.touched[el.key] = true
		x.written[el.key] = true
		h := x.heapCur(el.key, arr2Sort(es))
		x.bumpHeapVersion(el.key)
		x.st.heap[el.key] = x.define("h."+el.key, arr2Sort(es), fmt.Sprintf("(store %s %s %s)", h, id, v.(S).T))
	default:
		unsup("store of %s", t)
	}
}

// locOf resolves a pointer to a heap location (not for cells).
func (x *X) locOf(p Ptr) (loc, types.Type) {
	var l loc
	switch p.Kind {
	case pObj:
		if p.Root == nil {
			unsup("dereference of untyped pointer")
		}
		l = objLoc(p.Root, p.Obj)
	case pElem:
		l = elemLoc(p.Root, p.Arr, p.Idx)
	case pGlobal:
		l = loc{key: "G:" + p.Glob.Pkg.Pkg.Name() + "." + p.Glob.Name()}
	default:
		panic("locOf cell")
	}
	t := p.Root
	for _, i := range p.Path {
		st, ok := t.Underlying().(*types.Struct)
		if !ok {
			unsup("path through %s", t)
		}
		l = l.field(st.Field(i).Name())
		t = st.Field(i).Type()
	}
	return l, t
}

func (x *X) load(p Ptr) Val {
	if p.Kind == pCell {
		v := x.st.cells[p.Cell]
		if v == nil {
			unsup("read of uninitialised local %s", p.Cell.name)
		}
		for _, i := range p.Path {
			v = v.(Tup).E[i]
		}
		return v
	}
	l, t := x.locOf(p)
	v := x.loadAt(l, t)
	if p.Kind == pGlobal && len(p.Path) == 0 {
		if sl, isSlice := v.(Slice); isSlice {
			if n, ok := x.globalSliceLen(p.Glob); ok {
				x.assume(fmt.Sprintf("(and (= %s %d) (= %s %d) (= %s 0) (not (= %s 0)))", sl.Len, n, sl.Cap, n, sl.Off, sl.Arr))
				x.externs["package-level slice "+p.Glob.Name()+" keeps the length of its literal (assigned once, in init: checked)"] = true
			}
		}
	}
	return v
}

var globalSliceLenCache = map[*ssa.Global]int64{}

// globalSliceLen: the variable is assigned exactly once, in the package
// initialiser, from a slice literal; its length is that of the literal.
func (x *X) globalSliceLen(g *ssa.Global) (int64, bool) {
	cacheMu.Lock()
	defer cacheMu.Unlock()
	if n, ok := globalSliceLenCache[g]; ok {
		return n, n >= 0
	}
	globalSliceLenCache[g] = -1
	initFn := g.Pkg.Func("init")
	stores := 0
	var n int64 = -1
	for _, fn := range x.prog.Funcs {
		if fn.Pkg != g.Pkg || fn.Blocks == nil {
			continue
		}
		for _, b := range fn.Blocks {
			for _, in := range b.Instrs {
				switch in := in.(type) {
				case *ssa.Store:
					if in.Addr == g {
						stores++
						if sl, ok := in.Val.(*ssa.Slice); ok && fn == initFn && sl.Low == nil && sl.High == nil {
							if al, ok := sl.X.(*ssa.Alloc); ok {
								if at, ok := al.Type().(*types.Pointer).Elem().Underlying().(*types.Array); ok {
									n = at.Len()
								}
							}
						}
					}
				case ssa.CallInstruction:
					for _, a := range in.Common().Args {
						if a == g {
							stores += 2 // address escapes
						}
					}
				}
			}
		}
	}
	if stores != 1 || n < 0 {
		return 0, false
	}
	globalSliceLenCache[g] = n
	return n, true
}

func (x *X) store(p Ptr, v Val) {
	if p.Kind == pCell {
		old := x.st.cells[p.Cell]
		x.st.cells[p.Cell] = setPath(old, p.Path, v)
		return
	}
	l, t := x.locOf(p)
	x.storeAt(l, t, v)
}

func setPath(old Val, path []int, v Val) Val {
	if len(path) == 0 {
		return v
	}
	tv := old.(Tup)
	n := Tup{E: append([]Val(nil), tv.E...)}
	n.E[path[0]] = setPath(tv.E[path[0]], path[1:], v)
	return n
}

// newRef allocates a fresh object / array / map identity.
func (x *X) newRef(hint string) string {
	r := x.fresh(hint, SInt)
	alloc := x.heapCur("ALLOC", arrSort(SBool))
	x.assume(fmt.Sprintf("(and (> %s 0) (not (select %s %s)))", r, alloc, r))
	// (key "*fresh": used for the monotonicity of allocation, not for frame facts)
	x.addPointT(r, "ref", "", "*fresh")
	x.addPointT(r, "arr", "", "*fresh")
	x.st.heap["ALLOC"] = x.define("alloc", arrSort(SBool), fmt.Sprintf("(store %s %s true)", alloc, r))
	return r
}

// ---- obligations ----

func (x *X) oblige(kind, site string, pos token.Pos, goal string) {
	if x.noOblig > 0 || x.inline {
		return
	}
	key := x.curFn + "#" + kind + ":" + site
	x.siteCount[key]++
	name := key
	if n := x.siteCount[key]; n > 1 {
		name = fmt.Sprintf("%s@%d", key, n)
	}
	if p := x.sc.paramName; p != "" && (strings.Contains(goal, p) || strings.Contains(x.st.cond, p)) {
		unsup("obligation inside a summarised loop")
	}
	x.obls = append(x.obls, &Obligation{Name: name, Kind: kind, Site: site, Pos: pos, Prefix: len(x.sc.lines), Cond: x.st.cond, Goal: goal, Func: x.curFn})
	x.assume(implies(x.st.cond, goal))
}

func (x *X) site(pos token.Pos, fallback string) string {
	t := x.prog.lineText(pos)
	if t == "" {
		return fallback
	}
	return t
}

// ---- frames ----

type frame struct {
	fn      *ssa.Function
	vals    map[ssa.Value]Val
	cells   map[*ssa.Alloc]*Cell
	rets    []retEdge
	in      map[int][]edge
	loops   map[int]*loopInfo
	defers  []*ssa.Defer
	inLoop  *loopInfo
	exitsTo []edge
	iters   map[*ssa.Range]Iter
	names   map[string]func() TV // source-level names seen so far (debug refs, named phis)
	fired   map[string]bool      // site assertions already emitted (by assertion and line)
}

type edge struct {
	from, to int
	st       *State
}

type retEdge struct {
	st  *State
	val Val
}

type loopInfo struct {
	header *ssa.BasicBlock
	blocks map[int]bool
	backs  []int // predecessor block indices that are back edges
}

func (x *X) constVal(c *ssa.Const) Val {
	t := c.Type()
	if c.Value == nil {
		return x.zero(t)
	}
	switch kindOf(t) {
	case kBool:
		if constant.BoolVal(c.Value) {
			return S{"true", SBool}
		}
		return S{"false", SBool}
	case kInt:
		if i, ok := constant.Int64Val(constant.ToInt(c.Value)); ok {
			return S{intLit(i), SInt}
		}
		if u, ok := constant.Uint64Val(constant.ToInt(c.Value)); ok {
			return S{uintLit(u), SInt}
		}
		unsup("integer constant out of range")
	case kString:
		return S{x.strLit(constant.StringVal(c.Value)), SStr}
	case kFloat:
		unsup("floating-point constant")
	}
	unsup("constant of type %s", t)
	return nil
}

func (x *X) get(fr *frame, v ssa.Value) Val {
	switch v := v.(type) {
	case *ssa.Const:
		return x.constVal(v)
	case *ssa.Global:
		root := v.Type().(*types.Pointer).Elem()
		if kindOf(root) == kStruct {
			return x.globalObj(v, root)
		}
		return Ptr{Kind: pGlobal, Glob: v, Root: root}
	case *ssa.Function:
		return Clo{Fn: v}
	case *ssa.Builtin:
		unsup("builtin %s as value", v.Name())
	}
	r, ok := fr.vals[v]
	if !ok {
		unsup("value %s (%T) used before definition in %s", v.Name(), v, fr.fn.Name())
	}
	return r
}

// computeLoops finds natural loops (back edge = edge to a dominator).
func computeLoops(fn *ssa.Function) map[int]*loopInfo {
	loops := map[int]*loopInfo{}
	for _, b := range fn.Blocks {
		for _, s := range b.Succs {
			if s.Dominates(b) {
				li := loops[s.Index]
				if li == nil {
					li = &loopInfo{header: s, blocks: map[int]bool{s.Index: true}}
					loops[s.Index] = li
				}
				li.backs = append(li.backs, b.Index)
				// natural loop: nodes that reach b without passing s
				var stack []*ssa.BasicBlock
				if !li.blocks[b.Index] {
					li.blocks[b.Index] = true
					stack = append(stack, b)
				}
				for len(stack) > 0 {
					n := stack[len(stack)-1]
					stack = stack[:len(stack)-1]
					for _, p := range n.Preds {
						if !li.blocks[p.Index] {
							li.blocks[p.Index] = true
							stack = append(stack, p)
						}
					}
				}
			}
		}
	}
	return loops
}

func rpo(fn *ssa.Function) []*ssa.BasicBlock {
	seen := map[int]bool{}
	var post []*ssa.BasicBlock
	var dfs func(b *ssa.BasicBlock)
	dfs = func(b *ssa.BasicBlock) {
		seen[b.Index] = true
		for _, s := range b.Succs {
			if !seen[s.Index] && !s.Dominates(b) {
				dfs(s)
			}
		}
		post = append(post, b)
	}
	dfs(fn.Blocks[0])
	for i, j := 0, len(post)-1; i < j; i, j = i+1, j-1 {
		post[i], post[j] = post[j], post[i]
	}
	return post
}

// mergeEdges joins the states of incoming edges. It returns nil when the
// block is unreachable.
func (x *X) mergeEdges(es []edge) *State {
	var live []edge
	for _, e := range es {
		if e.st.cond != "false" {
			live = append(live, e)
		}
	}
	if len(live) == 0 {
		return nil
	}
	if len(live) == 1 {
		return live[0].st.clone()
	}
	last := live[len(live)-1].st
	out := last.clone()
	// the merged state keeps the longest havoc log (conservative: patterns of every branch)
	for _, e := range live {
		if len(e.st.log) > len(out.log) {
			out.log = e.st.log
		}
	}
	var conds []string
	for _, e := range live {
		conds = append(conds, e.st.cond)
	}
	for i := len(live) - 2; i >= 0; i-- {
		e := live[i]
		for k, h := range e.st.heap {
			if oh, ok := out.heap[k]; !ok || oh != h {
				if !ok {
					oh = last.baseName(k)
					x.sc.Declare(oh, nil, x.heapSorts[k])
				}
				out.heap[k] = ite(e.st.cond, h, oh)
			}
		}
		for k, oh := range out.heap {
			if _, ok := e.st.heap[k]; !ok {
				bn := e.st.baseName(k)
				x.sc.Declare(bn, nil, x.heapSorts[k])
				out.heap[k] = ite(e.st.cond, bn, oh)
			}
		}
		for c, v := range e.st.cells {
			if ov, ok := out.cells[c]; ok {
				out.cells[c] = x.mergeVals(e.st.cond, v, ov)
			}
		}
	}
	for k, h := range out.heap {
		if !isAtom(h) {
			out.heap[k] = x.define("hm."+k, x.heapSorts[k], h)
		}
	}
	for _, e := range live {
		for p, v := range e.st.vers {
			if out.vers[p] != v {
				nv := map[string]int{}
				for k2, v2 := range out.vers {
					nv[k2] = v2
				}
				nv[p] = newHeapVersion()
				out.vers = nv
			}
		}
		for p := range out.vers {
			if _, ok := e.st.vers[p]; !ok && out.vers[p] != 0 {
				nv := map[string]int{}
				for k2, v2 := range out.vers {
					nv[k2] = v2
				}
				nv[p] = newHeapVersion()
				out.vers = nv
			}
		}
	}
	out.cond = x.define("bc", SBool, or(conds...))
	return out
}

// execFunc runs fn on args from the current state and returns the merged
// result; x.st becomes the merged final state.
func (x *X) execFunc(fn *ssa.Function, args []Val, free []Val) Val {
	if fn.Blocks == nil {
		unsup("function %s has no body", fn.Name())
	}
	for _, f := range x.stack {
		if f == fn {
			unsup("recursive call of %s", FuncName(fn))
		}
	}
	if len(x.stack) > 12 {
		unsup("call depth")
	}
	if x.mode == modeVC && len(x.stack) >= 1 {
		// obligations of a callee are decided when the callee itself is verified
		x.noOblig++
		defer func() { x.noOblig-- }()
	}
	x.stack = append(x.stack, fn)
	defer func() { x.stack = x.stack[:len(x.stack)-1] }()

	fr := &frame{fn: fn, vals: map[ssa.Value]Val{}, cells: map[*ssa.Alloc]*Cell{}, in: map[int][]edge{}, loops: computeLoops(fn)}
	for i, p := range fn.Params {
		fr.vals[p] = args[i]
	}
	for i, fv := range fn.FreeVars {
		fr.vals[fv] = free[i]
	}
	entryCond := x.st.cond
	order := rpo(fn)
	fr.in[0] = []edge{{from: -1, to: 0, st: x.st}}
	x.runBlocks(fr, order, nil)
	// merge returns
	if len(fr.rets) == 0 {
		// no normal return (always panics): unreachable continuation
		x.st = &State{cond: "false", heap: x.st.heap, cells: x.st.cells}
		rt := fn.Signature.Results()
		if rt.Len() == 0 {
			return Tup{}
		}
		if rt.Len() == 1 {
			return x.zero(rt.At(0).Type())
		}
		tv := Tup{}
		for i := 0; i < rt.Len(); i++ {
			tv.E = append(tv.E, x.zero(rt.At(i).Type()))
		}
		return tv
	}
	var es []edge
	for _, r := range fr.rets {
		es = append(es, edge{st: r.st})
	}
	var res Val = fr.rets[len(fr.rets)-1].val
	for i := len(fr.rets) - 2; i >= 0; i-- {
		res = x.mergeVals(fr.rets[i].st.cond, fr.rets[i].val, res)
	}
	st := x.mergeEdges(es)
	if st == nil {
		st = &State{cond: "false", heap: x.st.heap, cells: x.st.cells}
	}
	_ = entryCond
	x.st = st
	return x.nameVal(fn.Name()+".ret", res)
}

// runBlocks executes blocks (in the given order) restricted to the set
// `only` (nil = all). Edges leaving the set are appended to fr.exitsTo.
func (x *X) runBlocks(fr *frame, order []*ssa.BasicBlock, only map[int]bool) {
	done := map[int]bool{}
	for _, b := range order {
		if only != nil && !only[b.Index] {
			continue
		}
		if done[b.Index] {
			continue
		}
		if li := fr.loops[b.Index]; li != nil && fr.inLoop != li {
			x.runLoop(fr, order, li, done)
			continue
		}
		x.runBlock(fr, b, only)
	}
}

func (x *X) runBlock(fr *frame, b *ssa.BasicBlock, only map[int]bool) {
	st := x.mergeEdges(fr.in[b.Index])
	if st == nil {
		return
	}
	x.st = st
	// phis
	ins := fr.in[b.Index]
	for _, ins1 := range b.Instrs {
		phi, ok := ins1.(*ssa.Phi)
		if !ok {
			break
		}
		if _, preset := fr.vals[phi]; preset && fr.inLoop != nil && fr.inLoop.header == b {
			continue
		}
		var val Val
		first := true
		for i := len(ins) - 1; i >= 0; i-- {
			e := ins[i]
			if e.st.cond == "false" {
				continue
			}
			pi := -1
			for k, p := range b.Preds {
				if p.Index == e.from {
					pi = k
					break
				}
			}
			if pi < 0 {
				unsup("phi edge not found")
			}
			v := x.get(fr, phi.Edges[pi])
			if first {
				val, first = v, false
			} else {
				val = x.mergeVals(e.st.cond, v, val)
			}
		}
		fr.vals[phi] = x.nameVal(valueHint(phi), val)
		if phi.Comment != "" && phi.Comment != "rangeindex" {
			pv, pt := fr.vals[phi], phi.Type()
			if fr.names == nil {
				fr.names = map[string]func() TV{}
			}
			fr.names[phi.Comment] = func() TV { return TV{pv, pt} }
		}
	}
	for _, ins1 := range b.Instrs {
		if _, ok := ins1.(*ssa.Phi); ok {
			continue
		}
		x.instr(fr, b, ins1, only)
	}
}

func valueHint(v ssa.Value) string {
	if p, ok := v.(*ssa.Phi); ok && p.Comment != "" {
		return p.Comment
	}
	return v.Name()
}

func (x *X) pushEdge(fr *frame, from *ssa.BasicBlock, to *ssa.BasicBlock, cond string, only map[int]bool) {
	st := x.st.clone()
	if cond == "false" || x.st.cond == "false" {
		st.cond = "false"
	} else {
		st.cond = x.define("ec", SBool, and(x.st.cond, cond))
	}
	e := edge{from: from.Index, to: to.Index, st: st}
	if only != nil && (!only[to.Index] || (fr.inLoop != nil && to == fr.inLoop.header)) {
		fr.exitsTo = append(fr.exitsTo, e)
		return
	}
	if to.Dominates(from) && fr.loops[to.Index] != nil {
		// back edge of a loop handled by runLoop
		fr.exitsTo = append(fr.exitsTo, e)
		return
	}
	fr.in[to.Index] = append(fr.in[to.Index], e)
}

// globalObj treats a package-level struct variable as a heap object with a
// fixed identity, so that its address is a first-class pointer.
func (x *X) globalObj(g *ssa.Global, root types.Type) Ptr {
	if x.globObjs == nil {
		x.globObjs = map[*ssa.Global]string{}
	}
	if r, ok := x.globObjs[g]; ok {
		return Ptr{Kind: pObj, Obj: r, Root: root}
	}
	name := "G$" + sanitize(g.Pkg.Pkg.Name()+"."+g.Name())
	x.sc.Declare(name, nil, SInt)
	x.sc.Assert(fmt.Sprintf("(and (> %s 0) (select ALLOC0 %s))", name, name))
	for o, n := range x.globObjs {
		if o != g {
			x.sc.Assert(fmt.Sprintf("(not (= %s %s))", name, n))
		}
	}
	x.globObjs[g] = name
	if x.globalNeverWritten(g) {
		// zero value for ever (no initialiser, no store, address never escapes as a whole)
		save := x.st
		l := objLoc(root, name)
		x.forLeaves(root, "", func(suffix, sort, zero string) {
			key := l.key + suffix
			h0 := "H0." + sanitize(key)
			if _, ok := x.heapSorts[key]; !ok {
				x.heapSorts[key] = arrSort(sort)
				x.sc.Declare(h0, nil, arrSort(sort))
				if _, ok := x.st.heap[key]; !ok {
					x.st.heap[key] = h0
				}
			}
			x.sc.Assert(fmt.Sprintf("(= (select %s %s) %s)", h0, name, zero))
		})
		x.st = save
		x.externs["package-level variable "+g.Name()+" keeps its zero value (no store to it or through its address anywhere in the package: checked)"] = true
	}
	return Ptr{Kind: pObj, Obj: name, Root: root}
}

var neverWrittenCache = map[*ssa.Global]bool{}
var cacheMu sync.Mutex

// globalNeverWritten: no instruction in the package stores to g, to a field
// address derived from g, or passes g's address to a call / stores it.
func (x *X) globalNeverWritten(g *ssa.Global) bool {
	cacheMu.Lock()
	defer cacheMu.Unlock()
	if v, ok := neverWrittenCache[g]; ok {
		return v
	}
	ok := true
	var derived func(v ssa.Value) bool
	derived = func(v ssa.Value) bool {
		switch v := v.(type) {
		case *ssa.Global:
			return v == g
		case *ssa.FieldAddr:
			return derived(v.X)
		case *ssa.IndexAddr:
			return derived(v.X)
		case *ssa.Phi:
			for _, e := range v.Edges {
				if e == g {
					return true
				}
			}
		}
		return false
	}
	for _, fn := range x.prog.Funcs {
		if fn.Pkg != g.Pkg || fn.Blocks == nil {
			continue
		}
		for _, b := range fn.Blocks {
			for _, in := range b.Instrs {
				switch in := in.(type) {
				case *ssa.Store:
					if derived(in.Addr) {
						ok = false
					}
					if in.Val == g {
						ok = false
					}
				case ssa.CallInstruction:
					for _, a := range in.Common().Args {
						if a == g {
							ok = false
						}
					}
				case *ssa.MakeInterface:
					if in.X == g {
						ok = false
					}
				case *ssa.Return:
					for _, r := range in.Results {
						if r == g {
							ok = false
						}
					}
				}
			}
		}
	}
	neverWrittenCache[g] = ok
	return ok
}

// addPoint registers an instantiation point (a loop witness, a skolem
// constant, an index used by the code or by a specification).
func (x *X) addPoint(term, class string) { x.addPointT(term, class, "", "") }

func (x *X) addPointT(term, class, typ, hkey string) {
	if x.inline || term == "" {
		return
	}
	if p := x.sc.paramName; p != "" && strings.Contains(term, p) {
		return
	}
	if x.pointSeen == nil {
		x.pointSeen = map[string]bool{}
	}
	key := term
	if class == "ref" || class == "arr" {
		key = class + ":" + term
	}
	if x.pointSeen[key] || len(term) > 200 {
		return
	}
	x.pointSeen[key] = true
	x.points = append(x.points, point{term: term, class: class, line: len(x.sc.lines), typ: typ, key: hkey})
}

// instances renders the instantiation of every quantified fact introduced
// within the first `upto` script lines at every point introduced within them.
func (x *X) instances(upto int) string {
	var b strings.Builder
	for _, q := range x.quants {
		if q.line > upto {
			continue
		}
		var pts []string
		for _, p := range x.points {
			if p.line > upto {
				continue
			}
			refQ, refP := q.class == "ref" || q.class == "arr", p.class == "ref" || p.class == "arr"
			if refQ != refP || (refQ && q.class != p.class) {
				// frame facts range over object / array identities, everything else over integers
				continue
			}
			if refQ {
				if q.key == "*skolem" {
					// allocation only grows: needed where a frame has to be established
					if p.key != "" {
						pts = append(pts, p.term)
					}
					continue
				}
				if q.key != "" && p.key != "" && p.key != q.key {
					continue
				}
				if q.key != "" && p.typ != "" && !keyOfType(q.key, p.typ) {
					continue
				}
				pts = append(pts, p.term)
				continue
			}
			if q.class != "" && p.class != q.class && p.class != "*" && p.class != "idx" {
				continue
			}
			pts = append(pts, p.term)
			if q.class == "" && p.class != "*" && p.class != "idx" && x.rangeWitness[p.term] {
				// witness of a range loop: the loop counts the previous index, the body works on the next one
				pts = append(pts, "(+ "+p.term+" 1)")
			} else if q.class == "" && p.class != "*" && p.class != "idx" {
				// a specification quantifier may speak about the neighbours of the element a loop stopped at
				pts = append(pts, "(+ "+p.term+" 1)", "(- "+p.term+" 1)")
			}
			if p.class == "idx" && q.class != "" && x.rangeClass[q.class] {
				// an element index named by the specification, seen from a range loop (which counts the previous index)
				pts = append(pts, "(- "+p.term+" 1)")
			}
			if p.class == "*" {
				pts = append(pts, "(- "+p.term+" 1)", "(+ "+p.term+" 1)")
			}
		}
		if q.hi != "" && isAtom(q.hi) {
			pts = append(pts, "(- "+q.hi+" 1)")
		}
		if q.lo != "" && isAtom(q.lo) {
			pts = append(pts, q.lo)
		}
		seen := map[string]bool{}
		for _, w := range pts {
			if seen[w] {
				continue
			}
			seen[w] = true
			var rng []string
			if q.lo != "" {
				rng = append(rng, fmt.Sprintf("(<= %s %s)", q.lo, w))
			}
			if q.hi != "" {
				rng = append(rng, fmt.Sprintf("(< %s %s)", w, q.hi))
			}
			b.WriteString("(assert " + implies(and(q.guard, and(rng...)), "("+q.fn+" "+w+")") + ")\n")
		}
	}
	return b.String()
}

var heapVerSeq int
var heapVerMu sync.Mutex

func newHeapVersion() int {
	heapVerMu.Lock()
	defer heapVerMu.Unlock()
	heapVerSeq++
	return heapVerSeq
}

// bumpHeapVersion records that the heap changed (writes to the allocation
// map and to boxes of fresh values do not affect what pure functions of
// existing objects compute, but are counted all the same: conservative).
func (x *X) bumpHeapVersion(key string) {
	if x.mode != modeVC || len(x.readPats) == 0 {
		return
	}
	var nv map[string]int
	for p, re := range x.readPats {
		if key == "*" || re.MatchString(key) {
			if nv == nil {
				nv = map[string]int{}
				for k2, v2 := range x.st.vers {
					nv[k2] = v2
				}
			}
			nv[p] = newHeapVersion()
		}
	}
	if nv != nil {
		x.st.vers = nv
	}
}

// heapVersionFor returns the version of the part of the heap matching the
// read patterns (a modifies-style list; empty = the whole heap).
func (x *X) heapVersionFor(reads []string) int {
	key := strings.Join(reads, " ")
	if x.readPats == nil {
		x.readPats = map[string]*regexp.Regexp{}
	}
	if _, ok := x.readPats[key]; !ok {
		pat := ".*"
		if len(reads) > 0 {
			var alts []string
			for _, r := range reads {
				alts = append(alts, globToRegexp(r))
			}
			pat = strings.Join(alts, "|")
		}
		x.readPats[key] = regexp.MustCompile(pat)
	}
	return x.st.vers[key]
}

// keyOfType: heap key k (H:, E: or M:) belongs to objects / arrays / maps of type key typ.
// Keys of other kinds (boxes, ghost state) are not typed.
func keyOfType(k, typ string) bool {
	if len(k) < 2 || (k[:2] != "H:" && k[:2] != "E:" && k[:2] != "M:") {
		return true
	}
	rest := k[2:]
	if !strings.HasPrefix(rest, typ) {
		return false
	}
	rest = rest[len(typ):]
	return rest == "" || rest[0] == '.' || rest[0] == '#'
}
