package main

import (
	"fmt"
	"os"
	"testing"
)

func TestOwnership(t *testing.T) {
	prog, err := LoadModule("util/resolve")
	if err != nil {
		t.Fatal(err)
	}
	res := OwnershipObligations(prog)
	proved, failed := 0, 0
	for _, r := range res {
		if r.Kind == "frame-summary" {
			fmt.Printf("SUMMARY %s [%s]: %s\n", r.Name, r.Status, r.Detail)
			continue
		}
		if r.Status == "failed" {
			failed++
			fmt.Printf("FAILED %s\n    %s\n", r.Name, r.Detail)
		} else {
			proved++
			if os.Getenv("OWN_ALL") != "" {
				fmt.Printf("%s %s %s\n", r.Status, r.Name, r.Detail)
			}
		}
	}
	fmt.Printf("proved %d failed %d\n", proved, failed)
}
