package main

import (
	"fmt"
	"go/types"
	"os"
	"runtime/debug"
	"sort"
	"strings"

	"golang.org/x/tools/go/ssa"
)

// unsupported is raised (by panic) when the code under analysis leaves the
// subset the generator models. The enclosing function is then reported as
// outside the subset; nothing about it is claimed.
type unsupported struct{ why string }

func unsup(format string, a ...any) {
	if os.Getenv("GOVC_DEBUG") != "" {
		debug.PrintStack()
	}
	panic(unsupported{fmt.Sprintf(format, a...)})
}

// Val is a symbolic Go value.
type Val interface{}

// S is a scalar SMT term.
type S struct {
	T    string
	Sort string
}

// Tup is a struct value or a result tuple.
type Tup struct{ E []Val }

// Slice is a Go slice header. Elements live in the element heap of the
// element type at (Arr, Off+i).
type Slice struct {
	Arr, Off, Len, Cap string
}

// Iface is an interface value: dynamic type tag (0 = nil interface) and a
// reference to the payload (a pointer value itself for pointer payloads, a
// box otherwise).
type Iface struct{ Tag, Ref string }

type ptrKind int

const (
	pObj    ptrKind = iota // pointer into a heap object designated by a Ref (Path may select an interior field)
	pCell                  // pointer into a non-escaping local
	pElem                  // pointer to a slice/array element
	pGlobal                // address of a package-level variable
)

// Ptr is a pointer. Only pObj pointers with an empty path are first-class
// (can be stored, compared with arbitrary pointers, passed to opaque
// functions); the others are tracked on the Go side.
type Ptr struct {
	Kind ptrKind
	Obj  string     // pObj: Ref term; "0" is nil
	Root types.Type // type of the designated object / cell / element / global (before Path)
	Cell *Cell
	Arr  string // pElem
	Idx  string // pElem
	Glob *ssa.Global
	Path []int
}

// Cell is a non-escaping local variable (an ssa.Alloc that is only loaded,
// stored and field/index-addressed).
type Cell struct {
	id   int
	name string
	typ  types.Type
}

// Clo is a function value known statically.
type Clo struct {
	Fn   *ssa.Function
	Free []Val
	Recv Val // bound method receiver, if any
}

// CloSet is a function value that is one of several statically known
// closures; the first alternative whose condition holds is the value.
type CloSet struct{ Alts []cloAlt }

type cloAlt struct {
	Cond string
	C    Clo
}

// MapV is a Go map: reference to the map object (0 = nil map).
type MapV struct{ Ref string }

func isNilPtr(p Ptr) bool { return p.Kind == pObj && p.Obj == "0" && len(p.Path) == 0 }

// ---- type classification ----

type typeKind int

const (
	kBool typeKind = iota
	kInt
	kString
	kFloat
	kPointer
	kSlice
	kStruct
	kArray
	kIface
	kMap
	kFunc
	kTuple
	kOther
)

func kindOf(t types.Type) typeKind {
	switch u := t.Underlying().(type) {
	case *types.Basic:
		switch {
		case u.Info()&types.IsBoolean != 0:
			return kBool
		case u.Info()&types.IsInteger != 0:
			return kInt
		case u.Info()&types.IsString != 0:
			return kString
		case u.Info()&types.IsFloat != 0:
			return kFloat
		case u.Kind() == types.UnsafePointer:
			return kOther
		case u.Kind() == types.UntypedNil:
			return kPointer
		}
		return kOther
	case *types.Pointer:
		return kPointer
	case *types.Slice:
		return kSlice
	case *types.Struct:
		return kStruct
	case *types.Array:
		return kArray
	case *types.Interface:
		return kIface
	case *types.Map:
		return kMap
	case *types.Signature:
		return kFunc
	case *types.Tuple:
		return kTuple
	}
	return kOther
}

// intRange returns the range of an integer type.
func intInfo(t types.Type) (bits int, signed bool) {
	b := t.Underlying().(*types.Basic)
	switch b.Kind() {
	case types.Int8:
		return 8, true
	case types.Int16:
		return 16, true
	case types.Int32, types.UntypedRune:
		return 32, true
	case types.Int, types.Int64, types.UntypedInt:
		return 64, true
	case types.Uint8:
		return 8, false
	case types.Uint16:
		return 16, false
	case types.Uint32:
		return 32, false
	case types.Uint, types.Uint64, types.Uintptr:
		return 64, false
	}
	return 64, true
}

func pow2(n int) string {
	switch n {
	case 7:
		return "128"
	case 8:
		return "256"
	case 15:
		return "32768"
	case 16:
		return "65536"
	case 31:
		return "2147483648"
	case 32:
		return "4294967296"
	case 63:
		return "9223372036854775808"
	case 64:
		return "18446744073709551616"
	}
	panic("pow2")
}

func intBounds(t types.Type) (lo, hi string) {
	bits, signed := intInfo(t)
	if signed {
		return "(- " + pow2(bits-1) + ")", "(- " + pow2(bits-1) + " 1)"
	}
	return "0", "(- " + pow2(bits) + " 1)"
}

// typeKey is the stable name of a type used in heap keys and tags.
func typeKey(t types.Type) string {
	return types.TypeString(t, func(p *types.Package) string { return p.Name() })
}

// ---- type tags for interfaces ----

type tagTable struct {
	ids   map[string]int
	types map[int]types.Type
}

func newTagTable() *tagTable { return &tagTable{ids: map[string]int{}, types: map[int]types.Type{}} }

// tag numbers are derived from the type name so that they are stable across
// runs and independent of encounter order.
func (tt *tagTable) tagOf(t types.Type) int {
	k := typeKey(t)
	if id, ok := tt.ids[k]; ok {
		return id
	}
	h := uint32(2166136261)
	for i := 0; i < len(k); i++ {
		h = (h ^ uint32(k[i])) * 16777619
	}
	id := int(h%1000000) + 1
	for {
		if _, used := tt.types[id]; !used {
			break
		}
		id++
	}
	tt.ids[k] = id
	tt.types[id] = t
	return id
}

func (tt *tagTable) sortedTags() []int {
	var out []int
	for id := range tt.types {
		out = append(out, id)
	}
	sort.Ints(out)
	return out
}

func pathString(root types.Type, path []int) string {
	var b strings.Builder
	t := root
	for _, i := range path {
		st, ok := t.Underlying().(*types.Struct)
		if !ok {
			b.WriteString(fmt.Sprintf(".%d", i))
			continue
		}
		b.WriteString("." + st.Field(i).Name())
		t = st.Field(i).Type()
	}
	return b.String()
}

func typeAtPath(root types.Type, path []int) types.Type {
	t := root
	for _, i := range path {
		st, ok := t.Underlying().(*types.Struct)
		if !ok {
			unsup("path through non-struct %s", t)
		}
		t = st.Field(i).Type()
	}
	return t
}
