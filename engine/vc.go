package main

import (
	"context"
	"fmt"
	"go/ast"
	"go/token"
	"go/types"
	"os"
	"regexp"
	"sort"
	"strings"

	"golang.org/x/tools/go/ssa"
)

// ---- static may-write analysis (heap keys a set of blocks can modify) ----

type keySort struct{ key, sort string }

type writeSet struct {
	keys  map[string]string // heap key -> sort
	alias map[string]string // keys of the same fields seen through a containing struct (interior pointers); havocked, not part of frame checks
	cells map[*ssa.Alloc]bool
	all   bool // unknown code: everything may change
	alloc bool
}

func newWriteSet() *writeSet {
	return &writeSet{keys: map[string]string{}, alias: map[string]string{}, cells: map[*ssa.Alloc]bool{}}
}

func (w *writeSet) union(o *writeSet) {
	for k, s := range o.keys {
		w.keys[k] = s
	}
	for k, s := range o.alias {
		w.alias[k] = s
	}
	for c := range o.cells {
		w.cells[c] = true
	}
	w.all = w.all || o.all
	w.alloc = w.alloc || o.alloc
}

// leavesOf lists (suffix, leaf sort) of type t, statically.
func (x *X) leavesOf(t types.Type) (out []keySort, ok bool) {
	ok = true
	defer func() {
		if r := recover(); r != nil {
			if _, isU := r.(unsupported); isU {
				ok = false
				return
			}
			panic(r)
		}
	}()
	x.forLeaves(t, "", func(suffix, sort, zero string) { out = append(out, keySort{suffix, sort}) })
	return
}

func (x *X) addKeys(w *writeSet, l loc, t types.Type) {
	if at, isArr := t.Underlying().(*types.Array); isArr {
		x.addKeys(w, loc{key: "E:" + typeKey(at.Elem()), idx: []string{"a", "i"}}, at.Elem())
		return
	}
	ls, ok := x.leavesOf(t)
	if !ok {
		w.all = true
		return
	}
	for _, lf := range ls {
		w.keys[l.key+lf.key] = heapSortFor(l, lf.sort)
	}
}

// addrLoc resolves an address expression to a heap location skeleton.
func (x *X) addrLoc(v ssa.Value) (l loc, cell *ssa.Alloc, ok bool) {
	switch v := v.(type) {
	case *ssa.FieldAddr:
		b, c, ok := x.addrLoc(v.X)
		if !ok {
			return loc{}, nil, false
		}
		if c != nil {
			return loc{}, c, true
		}
		st := v.X.Type().Underlying().(*types.Pointer).Elem().Underlying().(*types.Struct)
		return b.field(st.Field(v.Field).Name()), nil, true
	case *ssa.IndexAddr:
		switch t := v.X.Type().Underlying().(type) {
		case *types.Slice:
			return loc{key: "E:" + typeKey(t.Elem()), idx: []string{"a", "i"}}, nil, true
		case *types.Pointer:
			if at, isArr := t.Elem().Underlying().(*types.Array); isArr {
				if _, c, ok := x.addrLoc(v.X); ok && c != nil {
					return loc{}, c, true
				}
				return loc{key: "E:" + typeKey(at.Elem()), idx: []string{"a", "i"}}, nil, true
			}
		}
		return loc{}, nil, false
	case *ssa.Alloc:
		if !v.Heap {
			return loc{}, v, true
		}
	case *ssa.Global:
		root := v.Type().(*types.Pointer).Elem()
		if kindOf(root) != kStruct {
			return loc{key: "G:" + v.Pkg.Pkg.Name() + "." + v.Name()}, nil, true
		}
	case *ssa.Phi:
		// phi of cell addresses is not tracked
		for _, e := range v.Edges {
			if a, isA := e.(*ssa.Alloc); isA && !a.Heap {
				return loc{}, nil, false
			}
		}
	}
	pt, isPtr := v.Type().Underlying().(*types.Pointer)
	if !isPtr {
		return loc{}, nil, false
	}
	return objLoc(pt.Elem(), "r"), nil, true
}

func (x *X) fnWrites(fn *ssa.Function) *writeSet {
	if x.wsMemo == nil {
		x.wsMemo = map[*ssa.Function]*writeSet{}
		x.wsBusy = map[*ssa.Function]bool{}
	}
	if w, ok := x.wsMemo[fn]; ok {
		return w
	}
	if x.wsBusy[fn] {
		w := newWriteSet()
		w.all = true // recursion: give up
		return w
	}
	if fn.Blocks == nil {
		w := newWriteSet()
		w.all = true
		return w
	}
	x.wsBusy[fn] = true
	w := x.blockWrites(fn, nil)
	delete(x.wsBusy, fn)
	x.wsMemo[fn] = w
	return w
}

func (x *X) blockWrites(fn *ssa.Function, only map[int]bool) *writeSet {
	w := newWriteSet()
	for _, b := range fn.Blocks {
		if only != nil && !only[b.Index] {
			continue
		}
		for _, in := range b.Instrs {
			switch in := in.(type) {
			case *ssa.Store:
				l, c, ok := x.addrLoc(in.Addr)
				switch {
				case !ok:
					if os.Getenv("GOVC_WSDEBUG") != "" {
						fmt.Fprintln(os.Stderr, "writes: untracked store", in, "in", fn.Name())
					}
					w.all = true
				case c != nil:
					w.cells[c] = true
				default:
					x.addKeys(w, l, in.Val.Type())
				}
			case *ssa.MapUpdate:
				mt := in.Map.Type().Underlying().(*types.Map)
				x.mapKeys(w, mt)
			case *ssa.Alloc:
				if in.Heap {
					w.alloc = true
					t := in.Type().(*types.Pointer).Elem()
					x.addKeys(w, objLoc(t, "r"), t)
				}
			case *ssa.MakeSlice:
				w.alloc = true
				el := in.Type().Underlying().(*types.Slice).Elem()
				x.addKeys(w, loc{key: "E:" + typeKey(el), idx: []string{"a", "i"}}, el)
			case *ssa.MakeMap:
				w.alloc = true
				x.mapKeys(w, in.Type().Underlying().(*types.Map))
			case *ssa.MakeInterface:
				if k := kindOf(in.X.Type()); k != kPointer && k != kMap && k != kFunc {
					w.alloc = true
					x.addKeys(w, loc{key: "B:" + typeKey(in.X.Type()), idx: []string{"r"}}, in.X.Type())
				}
			case *ssa.Convert:
				if kindOf(in.X.Type()) == kString && kindOf(in.Type()) == kSlice {
					w.alloc = true
					el := in.Type().Underlying().(*types.Slice).Elem()
					x.addKeys(w, loc{key: "E:" + typeKey(el), idx: []string{"a", "i"}}, el)
				}
			case ssa.CallInstruction:
				x.callWrites(w, in.Common())
			}
		}
	}
	x.prog.expandInterior(w)
	return w
}

// containers: for every struct type T that occurs by value as a field (at any
// depth) of a named struct type R of the loaded program, the key prefixes
// "R.f.g" under which the symbolic executor addresses the fields of that T when
// it reaches them through a pointer into an R object (&r.f.g). A write set
// computed from the static type of a pointer (*T) names "H:T.x"; the same
// store through an interior pointer lands in "H:R.f.g.x".
func (p *Prog) containers() map[string][]string {
	p.contOnce.Do(func() {
		p.cont = map[string][]string{}
		seen := map[string]bool{}
		var walk func(prefix string, st *types.Struct, depth int)
		walk = func(prefix string, st *types.Struct, depth int) {
			if depth > 5 {
				return
			}
			for i := 0; i < st.NumFields(); i++ {
				f := st.Field(i)
				fst, ok := f.Type().Underlying().(*types.Struct)
				if !ok {
					continue
				}
				pre := prefix + "." + f.Name()
				tk := typeKey(f.Type())
				if !seen[tk+"\x00"+pre] {
					seen[tk+"\x00"+pre] = true
					p.cont[tk] = append(p.cont[tk], pre)
				}
				walk(pre, fst, depth+1)
			}
		}
		for _, pkg := range p.SSA.AllPackages() {
			if pkg.Pkg == nil || !isRepoPkg(pkg.Pkg) {
				continue
			}
			for _, m := range pkg.Members {
				t, ok := m.(*ssa.Type)
				if !ok {
					continue
				}
				if st, ok := t.Type().Underlying().(*types.Struct); ok {
					walk(typeKey(t.Type()), st, 0)
				}
			}
		}
		for k := range p.cont {
			sort.Strings(p.cont[k])
		}
	})
	return p.cont
}

func (p *Prog) expandInterior(w *writeSet) {
	cont := p.containers()
	if len(cont) == 0 {
		return
	}
	add := func(k, srt string) {
		pat := strings.HasPrefix(k, "@")
		body := strings.TrimPrefix(k, "@")
		if !strings.HasPrefix(body, "H:") {
			return
		}
		body = body[2:]
		for tk, pres := range cont {
			if !strings.HasPrefix(body, tk) {
				continue
			}
			rest := body[len(tk):]
			if rest != "" && rest[0] != '.' && rest[0] != '#' && rest[0] != '$' {
				continue
			}
			for _, pre := range pres {
				ak := "H:" + pre + rest
				if pat {
					ak = "@" + ak
				}
				if _, own := w.keys[ak]; !own {
					w.alias[ak] = srt
				}
			}
		}
	}
	for k, srt := range w.keys {
		add(k, srt)
	}
}

func (x *X) mapKeys(w *writeSet, mt *types.Map) {
	dummy := x.zero(mt.Key())
	l := x.mapLoc(mt, "r", dummy)
	x.addKeys(w, l, mt.Elem())
	w.keys[l.key+"#mhas"] = heapSortFor(l, SBool)
	w.keys["M:"+typeKey(mt)+"#mlen"] = arrSort(SInt)
}

func (x *X) callWrites(w *writeSet, c *ssa.CallCommon) {
	if b, ok := c.Value.(*ssa.Builtin); ok {
		switch b.Name() {
		case "append":
			w.alloc = true
			el := c.Args[0].Type().Underlying().(*types.Slice).Elem()
			x.addKeys(w, loc{key: "E:" + typeKey(el), idx: []string{"a", "i"}}, el)
		case "copy":
			el := c.Args[0].Type().Underlying().(*types.Slice).Elem()
			x.addKeys(w, loc{key: "E:" + typeKey(el), idx: []string{"a", "i"}}, el)
		case "delete":
			mt := c.Args[0].Type().Underlying().(*types.Map)
			dummy := x.zero(mt.Key())
			l := x.mapLoc(mt, "r", dummy)
			w.keys[l.key+"#mhas"] = heapSortFor(l, SBool)
			w.keys["M:"+typeKey(mt)+"#mlen"] = arrSort(SInt)
		}
		return
	}
	if c.IsInvoke() {
		if fullIs(c.Method, "error", "Error") {
			return
		}
		if !c.Method.Exported() && isRepoPkg(c.Method.Pkg()) {
			it := c.Value.Type().Underlying().(*types.Interface)
			scope := c.Method.Pkg().Scope()
			for _, n := range scope.Names() {
				tn, ok := scope.Lookup(n).(*types.TypeName)
				if !ok {
					continue
				}
				for _, t := range []types.Type{tn.Type(), types.NewPointer(tn.Type())} {
					if _, isI := tn.Type().Underlying().(*types.Interface); isI {
						continue
					}
					if types.Implements(t, it) {
						if m := x.prog.SSA.LookupMethod(t, c.Method.Pkg(), c.Method.Name()); m != nil {
							w.union(x.fnWrites(m))
						}
						break
					}
				}
			}
			return
		}
		if os.Getenv("GOVC_WSDEBUG") != "" {
			fmt.Fprintln(os.Stderr, "writes: open interface call", c.Method.FullName())
		}
		w.all = true
		return
	}
	f := c.StaticCallee()
	if f == nil {
		if mc, ok := c.Value.(*ssa.MakeClosure); ok {
			f = mc.Fn.(*ssa.Function)
		}
	}
	if f == nil {
		// a function value that is one of several statically known closures
		if fns, ok := closureTargets(c.Value, map[ssa.Value]bool{}); ok {
			for _, g := range fns {
				w.union(x.fnWrites(g))
			}
			return
		}
	}
	if f == nil {
		if os.Getenv("GOVC_WSDEBUG") != "" {
			fmt.Fprintln(os.Stderr, "writes: dynamic call", c.Value)
		}
		w.all = true
		return
	}
	full := f.String()
	if f.Origin() != nil {
		full = f.Origin().String()
	}
	if ew, ok := externWrites[full]; ok {
		ew(x, w, c)
		return
	}
	if _, ok := externModels[full]; ok {
		return // modelled extern without declared writes: pure
	}
	if p := pkgOf(f); p != nil && purePkgs[p.Path()] {
		return
	}
	if x.specs != nil {
		if fs := x.specs.Funcs[FuncName(f)]; fs != nil && fs.Modifies != nil {
			for _, m := range fs.Modifies {
				x.addModifies(w, m)
			}
			return
		}
		if fs := x.specs.Funcs[FuncName(f)]; fs != nil && fs.Pure {
			return
		}
	}
	if f.Blocks != nil && isRepoPkg(pkgOf(f)) {
		w.union(x.fnWrites(f))
		return
	}
	if os.Getenv("GOVC_WSDEBUG") != "" {
		fmt.Fprintln(os.Stderr, "writes: unknown callee", full)
	}
	w.all = true
}

// addModifies adds the heap keys named by a modifies clause entry
// ("Type.field", "E:elemtype", "alloc", "nothing").
func (x *X) addModifies(w *writeSet, m string) {
	switch m {
	case "nothing":
		return
	case "alloc":
		w.alloc = true
		return
	}
	w.keys["@"+m] = "" // pattern marker: matching keys are havocked, also those materialised later
}

var externWrites = map[string]func(x *X, w *writeSet, c *ssa.CallCommon){}

// ---- havoc ----

func (x *X) havocAlloc() {
	old := x.heapCur("ALLOC", arrSort(SBool))
	n := x.sc.Fresh("alloc", arrSort(SBool))
	x.sc.Assert(fmt.Sprintf("(forall ((r Int)) (! (=> (select %s r) (select %s r)) :pattern ((select %s r))))", old, n, n))
	// the same fact at the identities the program handles (see evalTouches)
	x.sc.n++
	fn := fmt.Sprintf("allocmono!%d", x.sc.n)
	x.sc.add(fmt.Sprintf("(define-fun %s ((r Int)) Bool (=> (select %s r) (select %s r)))", fn, old, n))
	x.quants = append(x.quants, quant{class: "ref", guard: "true", fn: fn, line: len(x.sc.lines), key: "*skolem"}, quant{class: "arr", guard: "true", fn: fn, line: len(x.sc.lines), key: "*skolem"})
	x.sc.Assert(fmt.Sprintf("(not (select %s 0))", n))
	x.st.heap["ALLOC"] = n
}

func (x *X) havocWrites(w0 *writeSet, why string) {
	w := w0
	if len(w0.alias) > 0 && !w0.all {
		// the same fields reached through a containing object are forgotten too
		w = newWriteSet()
		w.union(w0)
		for k, s := range w0.alias {
			if _, ok := w.keys[k]; !ok {
				w.keys[k] = s
			}
		}
	}
	if w.all {
		x.bumpHeapVersion("*")
	} else {
		for k := range w.keys {
			if strings.HasPrefix(k, "@") {
				x.bumpHeapVersion("*") // forgotten by pattern
				break
			}
			if !strings.HasPrefix(k, "B:") {
				x.bumpHeapVersion(k)
			}
		}
	}
	if w.all {
		x.havocHeap(why)
		for c := range x.st.cells {
			_ = c
		}
		return
	}
	var keys []string
	for k := range w.keys {
		keys = append(keys, k)
	}
	sort.Strings(keys)
	for _, k := range keys {
		if strings.HasPrefix(k, "@") {
			pat := globToRegexp(k[1:])
			re := regexp.MustCompile(pat)
			x.logHavoc(pat)
			for hk := range x.st.heap {
				if hk != "ALLOC" && re.MatchString(hk) {
					x.st.heap[hk] = x.sc.Fresh("hv."+hk, x.heapSorts[hk])
					x.written[hk] = true
				}
			}
			continue
		}
		if strings.HasPrefix(k, "B:") {
			// boxes are written once, when they are created: existing ones keep their content, and what an
			// index holds before a box is created there is unconstrained anyway
			continue
		}
		srt := w.keys[k]
		if old, ok := x.heapSorts[k]; ok {
			srt = old
		} else {
			x.heapSorts[k] = srt
		}
		x.st.heap[k] = x.sc.Fresh("hv."+k, srt)
		x.written[k] = true
	}
	if w.alloc {
		x.havocAlloc()
	}
}

// ---- loops in VC mode ----

func (x *X) loopOrdinal(fr *frame, li *loopInfo) int {
	var hs []int
	for h := range fr.loops {
		hs = append(hs, h)
	}
	minPos := func(h int) token.Pos {
		best := token.NoPos
		for b := range fr.loops[h].blocks {
			for _, in := range fr.fn.Blocks[b].Instrs {
				if p := in.Pos(); p.IsValid() && (best == token.NoPos || p < best) {
					best = p
				}
			}
		}
		return best
	}
	sort.Slice(hs, func(i, j int) bool {
		pi, pj := minPos(hs[i]), minPos(hs[j])
		if pi != pj {
			return pi < pj
		}
		return hs[i] < hs[j]
	})
	for i, h := range hs {
		if h == li.header.Index {
			return i
		}
	}
	return -1
}

func loopPos(b *ssa.BasicBlock) token.Pos {
	for _, in := range b.Instrs {
		if in.Pos().IsValid() {
			return in.Pos()
		}
	}
	return token.NoPos
}

// envAt builds the environment for specification expressions at a loop
// header or function exit: parameters, named phis, named locals.
func (x *X) envAt(fr *frame, li *loopInfo, phiVals map[*ssa.Phi]Val) *Env {
	pkg := pkgOf(fr.fn)
	env := &Env{vars: map[string]TV{}, pkg: pkg, old: x.entryState}
	// named values (debug refs and named phis) of the blocks that dominate the header, outside the
	// loop, from the entry towards the header: the definition closest to the header wins
	var doms []*ssa.BasicBlock
	for _, b := range fr.fn.Blocks {
		if li != nil && (li.blocks[b.Index] || !b.Dominates(li.header)) {
			continue
		}
		if li == nil {
			continue
		}
		doms = append(doms, b)
	}
	depth := func(b *ssa.BasicBlock) int {
		d := 0
		for x := b; x != nil; x = x.Idom() {
			d++
		}
		return d
	}
	sort.SliceStable(doms, func(i, j int) bool { return depth(doms[i]) < depth(doms[j]) })
	for _, b := range doms {
		for _, in := range b.Instrs {
			switch in := in.(type) {
			case *ssa.Phi:
				if in.Comment != "" && in.Comment != "rangeindex" {
					if v, ok := fr.vals[in]; ok {
						env.vars[in.Comment] = TV{v, in.Type()}
					}
				}
			case *ssa.DebugRef:
				if in.IsAddr {
					if v, ok := fr.vals[in.X]; ok {
						if name := debugName(in); name != "" {
							env.vars["&"+name] = TV{v, in.X.Type()}
						}
					}
				}
				if !in.IsAddr {
					if v, ok := fr.vals[in.X]; ok {
						if name := debugName(in); name != "" {
							env.vars[name] = TV{v, in.X.Type()}
						}
					} else if c, isConst := in.X.(*ssa.Const); isConst {
						if name := debugName(in); name != "" {
							func() {
								defer func() { recover() }()
								env.vars[name] = TV{x.constVal(c), c.Type()}
							}()
						}
					}
				}
			}
		}
	}
	for c, cell := range fr.cells {
		if c.Comment != "" && !c.Heap {
			if v, ok := x.st.cells[cell]; ok {
				env.vars[c.Comment] = TV{v, c.Type().(*types.Pointer).Elem()}
			}
		}
	}
	for _, p := range fr.fn.Params {
		if v, ok := fr.vals[p]; ok {
			env.vars[p.Name()] = TV{v, p.Type()}
		}
	}
	for _, fv := range fr.fn.FreeVars {
		if v, ok := fr.vals[fv]; ok {
			if p, isPtr := v.(Ptr); isPtr {
				// captured variable: expose its current value
				func() {
					defer func() { recover() }()
					env.vars[fv.Name()] = TV{x.load(p), fv.Type().(*types.Pointer).Elem()}
				}()
			}
		}
	}
	if li != nil {
		for _, b := range fr.fn.Blocks {
			if !li.blocks[b.Index] {
				continue
			}
			for _, in := range b.Instrs {
				if nx, ok := in.(*ssa.Next); ok {
					if rg, ok := nx.Iter.(*ssa.Range); ok {
						if it, ok := fr.iters[rg]; ok && it.MapT != nil {
							if sv, ok := x.st.cells[it.Cell]; ok {
								env.vars["$seen"] = TV{sv, nil}
							}
						}
					}
				}
			}
		}
	}
	for phi, v := range phiVals {
		if phi.Comment != "" && phi.Comment != "rangeindex" {
			env.vars[phi.Comment] = TV{v, phi.Type()}
		} else if li != nil && kindOf(phi.Type()) == kInt {
			// the hidden index of a range loop (last index processed, -1 before the first)
			env.vars["rangeidx"] = TV{v, phi.Type()}
		}
	}
	return env
}

func debugName(dr *ssa.DebugRef) string {
	if id, ok := dr.Expr.(interface{ String() string }); ok {
		s := id.String()
		if !strings.ContainsAny(s, " .()[]") {
			return s
		}
	}
	return ""
}

func (x *X) cutLoop(fr *frame, order []*ssa.BasicBlock, li *loopInfo) {
	h := li.header
	entries := fr.in[h.Index]
	entry := x.mergeEdges(entries)
	if entry == nil {
		return
	}
	var spec *LoopSpec
	ord := x.loopOrdinal(fr, li)
	if x.specs != nil {
		fs := x.specs.Funcs[FuncName(fr.fn)]
		if len(x.stack) == 1 && x.topSpec != nil {
			fs = x.topSpec // the contract (variant) under verification
		}
		if fs != nil {
			spec = fs.Loops[ord]
		}
	}
	var phis []*ssa.Phi
	for _, in := range h.Instrs {
		if p, ok := in.(*ssa.Phi); ok {
			phis = append(phis, p)
		}
	}
	// values on entry
	entryVals := map[*ssa.Phi]Val{}
	for _, phi := range phis {
		var val Val
		first := true
		for i := len(entries) - 1; i >= 0; i-- {
			e := entries[i]
			if e.st.cond == "false" {
				continue
			}
			pi := -1
			for k, p := range h.Preds {
				if p.Index == e.from {
					pi = k
				}
			}
			v := x.get(fr, phi.Edges[pi])
			if first {
				val, first = v, false
			} else {
				val = x.mergeVals(e.st.cond, v, val)
			}
		}
		entryVals[phi] = x.nameVal(valueHint(phi)+".in", val)
	}
	site := fmt.Sprintf("loop %d", ord)
	pos := loopPos(h)
	x.st = entry
	var invs []string
	if spec != nil {
		invs = spec.Invariants
	}
	// invariants hold on entry
	if len(invs) > 0 {
		env := x.envAt(fr, li, entryVals)
		env.loopOld = entry
		for i, inv := range invs {
			x.oblige("inv.entry", fmt.Sprintf("%s invariant %d: %s", site, i+1, inv), pos, x.evalBool(env, inv))
		}
	}
	// a loop without contract in a function under contract: if no back edge can be
	// taken from the entry state, the loop is its first (partial) pass and nothing is forgotten
	if spec == nil && x.peel && (len(phis) == 0 || loopValuesStayInside(fr.fn, li)) && !x.siteAssertsNameLoopLocals(fr.fn, li) {
		// (a loop with loop-carried variables that are used afterwards gains nothing from a first exact pass)
		done, rest := x.peelLoop(fr, order, li, entry, entryVals, phis)
		if done {
			return
		}
		if rest != "" {
			// the first pass has been accounted for exactly; what follows stands for the later ones
			entry = entry.clone()
			entry.cond = rest
		}
	}
	// havoc what the loop may change; invariants of the shape [imp(G,] .. touches(..) .. [)]
	// (relative to the state on entry of the function) refine how
	w := x.blockWrites(fr.fn, li.blocks)
	x.st = entry.clone()
	var fcs []*frameClause
	invRest := map[int]ast.Expr{}
	invFramed := map[int]bool{}
	for i, inv := range invs {
		if fc, rest := splitFrame(inv); fc != nil && (x.entryState != nil || fc.loop) {
			fcs = append(fcs, fc)
			invFramed[i] = true
			if rest != nil {
				invRest[i] = rest
			}
		}
	}
	if len(fcs) > 0 {
		henv := x.envAt(fr, li, entryVals)
		henv.loopOld = entry
		x.preciseHavoc2(w, "loop body", henv, x.entryState, entry, fcs, nil)
	} else {
		x.havocWrites(w, "loop body")
	}
	for a := range w.cells {
		if cell, ok := fr.cells[a]; ok {
			if _, live := x.st.cells[cell]; live {
				x.st.cells[cell] = x.freshVal(cell.typ, cell.name)
			}
		}
	}
	for _, b := range fr.fn.Blocks {
		if !li.blocks[b.Index] {
			continue
		}
		for _, in := range b.Instrs {
			if nx, ok := in.(*ssa.Next); ok {
				if rg, ok := nx.Iter.(*ssa.Range); ok {
					if it, ok := fr.iters[rg]; ok && it.MapT != nil {
						old := x.st.cells[it.Cell].(S)
						x.st.cells[it.Cell] = S{x.fresh("rangeseen", old.Sort), old.Sort}
					} else if ok {
						pos := x.fresh("rangepos", SInt)
						x.assume(fmt.Sprintf("(and (<= 0 %s) (<= %s (gs.len %s)))", pos, pos, it.Str))
						x.st.cells[it.Cell] = S{pos, SInt}
					}
				}
			}
		}
	}
	phiVals := map[*ssa.Phi]Val{}
	for _, phi := range phis {
		// a phi whose back edges carry the phi itself does not change in the loop
		invariantPhi := true
		for i, pred := range h.Preds {
			for _, bi := range li.backs {
				if bi == pred.Index && phi.Edges[i] != phi {
					invariantPhi = false
				}
			}
		}
		if invariantPhi {
			phiVals[phi] = entryVals[phi]
			fr.vals[phi] = entryVals[phi]
			continue
		}
		v := x.freshVal(phi.Type(), valueHint(phi))
		if p, isPtr := entryVals[phi].(Ptr); isPtr && p.Kind != pObj {
			unsup("loop-carried interior pointer")
		}
		phiVals[phi] = v
		fr.vals[phi] = v
	}
	// inside the body (site assertions) a loop-carried variable denotes its value at the head of the iteration
	nameFromPhis := func() {
		for _, phi := range phis {
			if name := phi.Comment; name != "" && phiVals[phi] != nil {
				val, t := phiVals[phi], phi.Type()
				if fr.names == nil {
					fr.names = map[string]func() TV{}
				}
				fr.names[name] = func() TV { return TV{val, t} }
			}
		}
	}
	nameFromPhis()
	headState := x.st
	// automatic invariant of counting loops: the counter does not run below its start,
	// and stays within the bound when it started within it
	if cphi, _ := counterOf2(li); cphi != nil {
		c0 := entryVals[cphi].(S).T
		cv := phiVals[cphi].(S).T
		x.assume(fmt.Sprintf("(<= %s %s)", c0, cv))
		if n, ok := boundOf(li, cphi); ok {
			nt := ""
			if nv, ok := fr.vals[n]; ok || isConst(n) {
				if !ok {
					nv = x.get(fr, n)
				}
				nt = nv.(S).T
			} else if call, ok := n.(*ssa.Call); ok {
				// len(x) recomputed in the header, x defined outside the loop
				if av, ok := fr.vals[call.Call.Args[0]]; ok {
					switch a := av.(type) {
					case Slice:
						nt = a.Len
					case S:
						if kindOf(call.Call.Args[0].Type()) == kString {
							nt = "(gs.len " + a.T + ")"
						}
					}
				}
			}
			if nt != "" {
				// i <= max(c0, n): induction over +1 steps guarded by i < n
				x.assume(fmt.Sprintf("(or (<= %s %s) (<= %s %s))", cv, nt, cv, c0))
			}
		}
	}
	var d0 string
	if len(invs) > 0 || (spec != nil && spec.Decreases != "") {
		env := x.envAt(fr, li, phiVals)
		env.loopOld = entry
		x.polarity = -1
		for i, inv := range invs {
			if invFramed[i] {
				if rest, ok := invRest[i]; ok {
					x.assume(x.eval(env, rest).V.(S).T)
				}
				continue
			}
			x.assume(x.evalBool(env, inv))
		}
		x.polarity = 1
		if spec != nil && spec.Decreases != "" {
			d0 = x.define("variant", SInt, x.evalSrc(env, spec.Decreases).V.(S).T)
		}
	}
	// run the body once from the arbitrary iteration
	saveLoop, saveExits, saveIn := fr.inLoop, fr.exitsTo, fr.in[h.Index]
	fr.inLoop, fr.exitsTo = li, nil
	fr.in[h.Index] = []edge{{from: -1, to: h.Index, st: headState}}
	var sub []*ssa.BasicBlock
	for _, b := range order {
		if li.blocks[b.Index] {
			sub = append(sub, b)
		}
	}
	x.runBlock(fr, h, li.blocks)
	x.runBlocks(fr, sub[1:], li.blocks)
	exits := fr.exitsTo
	fr.inLoop, fr.exitsTo = saveLoop, saveExits
	fr.in[h.Index] = saveIn
	for _, e := range exits {
		if e.to != h.Index {
			fr.in[e.to] = append(fr.in[e.to], e)
			continue
		}
		// back edge: invariants are preserved, variant decreases
		pi := -1
		for k, p := range h.Preds {
			if p.Index == e.from {
				pi = k
			}
		}
		x.st = e.st
		next := map[*ssa.Phi]Val{}
		for _, phi := range phis {
			next[phi] = x.get(fr, phi.Edges[pi])
		}
		if len(invs) > 0 || d0 != "" {
			env := x.envAt(fr, li, next)
			env.loopOld = entry
			for i, inv := range invs {
				x.oblige("inv.preserve", fmt.Sprintf("%s invariant %d: %s", site, i+1, inv), pos, x.evalBool(env, inv))
			}
			if d0 != "" {
				d1 := x.evalSrc(env, spec.Decreases).V.(S).T
				x.oblige("decreases", fmt.Sprintf("%s variant %s", site, spec.Decreases), pos, fmt.Sprintf("(and (<= 0 %s) (< %s %s))", d0, d1, d0))
			}
		}
	}
	// restore phi values for code after the loop (they denote the exit iteration)
	for _, phi := range phis {
		fr.vals[phi] = phiVals[phi]
	}
	nameFromPhis()
}

func isConst(v ssa.Value) bool { _, ok := v.(*ssa.Const); return ok }

// counterOf2 finds a counter among possibly several header phis: a phi whose
// back-edge values are all phi+1.
func counterOf2(li *loopInfo) (*ssa.Phi, string) {
	h := li.header
	for _, in := range h.Instrs {
		p, ok := in.(*ssa.Phi)
		if !ok {
			break
		}
		good := true
		for i, pred := range h.Preds {
			back := false
			for _, bi := range li.backs {
				if bi == pred.Index {
					back = true
				}
			}
			if !back {
				continue
			}
			b, ok := p.Edges[i].(*ssa.BinOp)
			if !ok || b.Op != token.ADD || b.X != p {
				good = false
				break
			}
			if c, ok := constInt(b.Y); !ok || c != 1 {
				good = false
				break
			}
		}
		if good && kindOf(p.Type()) == kInt {
			return p, ""
		}
	}
	return nil, "no counter"
}

// boundOf returns n when the header tests `counter < n` (or counter+1 < n) with n loop-invariant.
func boundOf(li *loopInfo, p *ssa.Phi) (ssa.Value, bool) {
	h := li.header
	iff, ok := h.Instrs[len(h.Instrs)-1].(*ssa.If)
	if !ok {
		return nil, false
	}
	cmp, ok := iff.Cond.(*ssa.BinOp)
	if !ok || cmp.Op != token.LSS {
		return nil, false
	}
	if cmp.X != p {
		// range form: the header computes p+1 and tests it; p itself then stays below the bound too
		inc, ok := cmp.X.(*ssa.BinOp)
		if !ok || inc.Op != token.ADD || inc.X != p {
			return nil, false
		}
		if c, ok := constInt(inc.Y); !ok || c != 1 {
			return nil, false
		}
	}
	if ins, ok := cmp.Y.(ssa.Instruction); ok && li.blocks[ins.Block().Index] {
		// len(x) of a value defined outside the loop is loop-invariant (strings are immutable;
		// a slice value is an SSA value, its header does not change)
		if call, ok := cmp.Y.(*ssa.Call); ok {
			if b, ok := call.Call.Value.(*ssa.Builtin); ok && b.Name() == "len" {
				arg := call.Call.Args[0]
				if ai, ok := arg.(ssa.Instruction); !ok || !li.blocks[ai.Block().Index] {
					if k := kindOf(arg.Type()); k == kString || k == kSlice {
						return cmp.Y, true
					}
				}
			}
		}
		return nil, false
	}
	return cmp.Y, true
}

// ---- append / copy ----

func (x *X) appendVC(fr *frame, in ssa.Instruction, c *ssa.CallCommon, args []Val) Val {
	st := c.Args[0].Type().Underlying().(*types.Slice)
	el := st.Elem()
	s := args[0].(Slice)
	var t Slice
	var tstr string
	switch a := args[1].(type) {
	case Slice:
		t = a
	case S: // append([]byte, string...)
		tstr = a.T
		t = Slice{"0", "0", "(gs.len " + a.T + ")", "(gs.len " + a.T + ")"}
	default:
		unsup("append of %T", args[1])
	}
	n := x.define("n", SInt, "(+ "+s.Len+" "+t.Len+")")
	inplace := x.define("inplace", SBool, "(<= "+n+" "+s.Cap+")")
	r := x.newRef("grown")
	ncap := x.fresh("newcap", SInt)
	x.assume(fmt.Sprintf("(and (>= %s %s) (<= %s 4611686018427387904))", ncap, n, ncap))
	res := Slice{
		Arr: x.define("app.arr", SInt, ite(inplace, s.Arr, r)),
		Off: x.define("app.off", SInt, ite(inplace, s.Off, "0")),
		Len: n,
		Cap: x.define("app.cap", SInt, ite(inplace, s.Cap, ncap)),
	}
	// appending nothing to a nil slice keeps it nil
	res.Arr = x.define("app.arr", SInt, ite(and(eq(t.Len, "0"), eq(s.Arr, "0")), "0", res.Arr))
	ls, ok := x.leavesOf(el)
	if !ok {
		unsup("append of elements of type %s", el)
	}
	// append(s, x1, ..., xN) with a literal argument list: the N new elements are written with
	// plain stores; only the copy into a grown array needs a quantified fact (about a fresh row).
	if nconst := varargsLen(c); nconst > 0 && nconst <= 4 && tstr == "" {
		for _, lf := range ls {
			key := "E:" + typeKey(el) + lf.key
			srt := arr2Sort(lf.sort)
			old := x.heapCur(key, srt)
			x.touched[key], x.written[key] = true, true
			row := x.sc.Fresh("grown.row", arrSort(lf.sort))
			x.sc.Assert(fmt.Sprintf("(forall ((j Int)) (! (=> (and (<= 0 j) (< j %s)) (= (select %s j) (select (select %s %s) (+ %s j)))) :pattern ((select %s j))))", s.Len, row, old, s.Arr, s.Off, row))
			// explicit instance at the points is added below through a registered fact
			base := ite(inplace, "(select "+old+" "+s.Arr+")", row)
			for i := 0; i < nconst; i++ {
				v := fmt.Sprintf("(select (select %s %s) (+ %s %d))", old, t.Arr, t.Off, i)
				base = fmt.Sprintf("(store %s (+ %s %s %d) %s)", base, res.Off, s.Len, i, v)
			}
			x.st.heap[key] = x.define("app."+key, srt, fmt.Sprintf("(store %s %s %s)", old, res.Arr, base))
			// instantiation of the copy fact at the collected points
			x.sc.n++
			fn := fmt.Sprintf("rowcopy!%d", x.sc.n)
			x.sc.add(fmt.Sprintf("(define-fun %s ((j Int)) Bool (= (select %s j) (select (select %s %s) (+ %s j))))", fn, row, old, s.Arr, s.Off))
			x.quants = append(x.quants, quant{guard: "true", fn: fn, lo: "0", hi: s.Len, line: len(x.sc.lines)})
		}
		x.bumpHeapVersion("append")
		return res
	}
	for _, lf := range ls {
		key := "E:" + typeKey(el) + lf.key
		srt := arr2Sort(lf.sort)
		old := x.heapCur(key, srt)
		x.touched[key], x.written[key] = true, true
		nh := x.sc.Fresh("app."+key, srt)
		src := "(select (select " + old + " " + t.Arr + ") (+ " + t.Off + " (- j " + res.Off + " " + s.Len + ")))"
		if tstr != "" {
			src = "(gs.at " + tstr + " (- j " + res.Off + " " + s.Len + "))"
		}
		x.sc.Assert(fmt.Sprintf("(forall ((a Int) (j Int)) (! (= (select (select %s a) j) (ite (and (= a %s) (<= (+ %s %s) j) (< j (+ %s %s))) %s (ite (and (not %s) (= a %s) (<= 0 j) (< j %s)) (select (select %s %s) (+ %s j)) (select (select %s a) j)))) :pattern ((select (select %s a) j))))",
			nh, res.Arr, res.Off, s.Len, res.Off, n, src, inplace, r, s.Len, old, s.Arr, s.Off, old, nh))
		x.st.heap[key] = nh
	}
	x.bumpHeapVersion("append")
	return res
}

func (x *X) copyVC(fr *frame, in ssa.Instruction, c *ssa.CallCommon, args []Val) Val {
	el := c.Args[0].Type().Underlying().(*types.Slice).Elem()
	d := args[0].(Slice)
	var srcLen string
	var srcAt func(old, j string) string
	switch a := args[1].(type) {
	case Slice:
		srcLen = a.Len
		srcAt = func(old, j string) string {
			return "(select (select " + old + " " + a.Arr + ") (+ " + a.Off + " " + j + "))"
		}
	case S:
		srcLen = "(gs.len " + a.T + ")"
		srcAt = func(old, j string) string { return "(gs.at " + a.T + " " + j + ")" }
	default:
		unsup("copy from %T", args[1])
	}
	n := x.define("ncopy", SInt, fmt.Sprintf("(ite (< %s %s) %s %s)", d.Len, srcLen, d.Len, srcLen))
	ls, ok := x.leavesOf(el)
	if !ok {
		unsup("copy of elements of type %s", el)
	}
	for _, lf := range ls {
		key := "E:" + typeKey(el) + lf.key
		srt := arr2Sort(lf.sort)
		old := x.heapCur(key, srt)
		x.touched[key], x.written[key] = true, true
		nh := x.sc.Fresh("cp."+key, srt)
		x.sc.Assert(fmt.Sprintf("(forall ((a Int) (j Int)) (! (= (select (select %s a) j) (ite (and (= a %s) (<= %s j) (< j (+ %s %s))) %s (select (select %s a) j))) :pattern ((select (select %s a) j))))",
			nh, d.Arr, d.Off, d.Off, n, srcAt(old, "(- j "+d.Off+")"), old, nh))
		x.st.heap[key] = nh
	}
	x.bumpHeapVersion("copy")
	return S{n, SInt}
}

// ---- calls through contracts ----

func (x *X) callContract(f *ssa.Function, fs *FuncSpec, args []Val, in ssa.Instruction) Val {
	pkg := pkgOf(f)
	env := &Env{vars: map[string]TV{}, pkg: pkg}
	for i, p := range f.Params {
		env.vars[p.Name()] = TV{args[i], p.Type()}
	}
	var pos token.Pos
	site := "call of " + FuncName(f)
	if in != nil {
		pos = in.Pos()
		site = x.site(pos, site)
	}
	for _, r := range fs.Requires {
		x.oblige("pre", site+" requires "+r, pos, x.evalBool(env, r))
	}
	if fs.Trusted {
		x.externs["trusted contract of "+FuncName(f)+" (assumed, not verified): "+strings.Join(fs.Ensures, "; ")] = true
	}
	old := x.st.clone()
	// postconditions of the shape [imp(G,] touches(..) [)] refine how the heap is forgotten
	var fcs []*frameClause
	rests := map[int]ast.Expr{}
	framed := map[int]bool{}
	for i, e := range fs.Ensures {
		if fc, rest := splitFrame(e); fc != nil {
			fcs = append(fcs, fc)
			framed[i] = true
			if rest != nil {
				rests[i] = rest
			}
		}
	}
	rt := resultType(f.Signature)
	var res Val
	if !fs.Pure {
		var w *writeSet
		if fs.Modifies != nil {
			w = newWriteSet()
			for _, m := range fs.Modifies {
				x.addModifies(w, m)
			}
		} else {
			w = x.fnWrites(f)
		}
		if len(fcs) > 0 {
			x.preciseHavoc(w, "call of "+FuncName(f), env, old, fcs, func() {
				res = x.freshVal(rt, sanitize(f.Name())+".res")
				bindResult(env, res, rt)
			})
		} else {
			x.havocWrites(w, "call of "+FuncName(f))
		}
	}
	if res == nil {
		res = x.freshVal(rt, sanitize(f.Name())+".res")
		bindResult(env, res, rt)
	}
	env.old = old
	x.polarity = -1
	for i, e := range fs.Ensures {
		if framed[i] {
			if rest, ok := rests[i]; ok {
				x.assume(implies(x.st.cond, x.eval(env, rest).V.(S).T))
			}
			continue
		}
		x.assume(implies(x.st.cond, x.evalBool(env, e)))
	}
	x.polarity = 1
	return res
}

func bindResult(env *Env, res Val, rt types.Type) {
	if tt, ok := rt.(*types.Tuple); ok {
		if tt.Len() == 0 {
			return
		}
		for i := 0; i < tt.Len(); i++ {
			env.vars[fmt.Sprintf("result%d", i)] = TV{res.(Tup).E[i], tt.At(i).Type()}
		}
		return
	}
	env.vars["result"] = TV{res, rt}
}

// ---- verifying one function ----

// VerifyFunc generates and decides the verification conditions of fn under
// its contract (possibly empty: then only the implicit safety obligations).
func VerifyFunc(prog *Prog, specs *Specs, fn *ssa.Function, tier string, c *checkCtx, kinds map[string]bool) (res []OblResult) {
	return verifyFuncFiltered(prog, specs, fn, tier, c, kinds, nil)
}

// verifyFuncFiltered: obligations rejected by filter are generated but not
// sent to the solvers (status "skipped"). A function whose obligations are
// renamed in place is solved entirely, so that positional re-matching works.
func verifyFuncFiltered(prog *Prog, specs *Specs, fn *ssa.Function, tier string, c *checkCtx, kinds map[string]bool, base map[string]bool) (res []OblResult) {
	return verifyFuncVariant(prog, specs, fn, "", tier, c, kinds, base)
}

// verifyFuncVariant verifies fn against its contract (variant "") or against one of its variant contracts.
func verifyFuncVariant(prog *Prog, specs *Specs, fn *ssa.Function, variant string, tier string, c *checkCtx, kinds map[string]bool, base map[string]bool) (res []OblResult) {
	name := FuncName(fn)
	fs := specs.Funcs[name]
	if variant != "" {
		fs = specs.Funcs[name+"~"+variant]
	}
	if fs == nil {
		fs = &FuncSpec{Name: name, Loops: map[int]*LoopSpec{}}
	}
	x := NewX(prog, specs, modeVC)
	x.unfold = map[string]bool{name: true}
	x.topSpec = fs
	if variant != "" {
		name = name + "~" + variant // obligations of the variant carry its name
	}
	x.curFn = name
	defer func() {
		if r := recover(); r != nil {
			u, ok := r.(unsupported)
			if !ok {
				if msg, isStr := r.(string); isStr && strings.HasPrefix(msg, "contract:") {
					res = []OblResult{{Name: name + "#contract:", Status: "unbound", Detail: msg, Func: name, Kind: "contract"}}
					return
				}
				panic(r)
			}
			res = []OblResult{{Name: name + "#subset:", Status: "unsupported", Detail: u.why, Func: name, Kind: "subset"}}
		}
	}()
	pkg := pkgOf(fn)
	env := &Env{vars: map[string]TV{}, pkg: pkg}
	var args []Val
	for _, p := range fn.Params {
		v := x.freshVal(p.Type(), p.Name())
		args = append(args, v)
		env.vars[p.Name()] = TV{v, p.Type()}
	}
	var free []Val
	for _, fv := range fn.FreeVars {
		// captured variables: fresh boxes
		t := fv.Type().(*types.Pointer).Elem()
		r := x.fresh(fv.Name(), SInt)
		x.assume(fmt.Sprintf("(and (> %s 0) (select ALLOC0 %s))", r, r))
		free = append(free, Ptr{Kind: pObj, Obj: r, Root: t})
	}
	x.polarity = -1
	for _, r := range fs.Requires {
		x.sc.Assert(x.evalBool(env, r))
	}
	x.polarity = 1
	old := x.st.clone()
	x.entryState = old
	env.old = old
	x.siteAsserts = fs.Asserts
	x.usesOnly = map[string]bool{}
	for _, u := range fs.Uses {
		x.usesOnly[u] = true
	}
	x.abstractCallee = map[string]bool{}
	for _, a := range fs.Abstract {
		x.abstractCallee[a] = true
	}
	x.peel = len(fs.Ensures) > 0 || len(fs.Asserts) > 0
	x.prune = fs.Prune
	if len(fs.Ensures) > 0 && !fs.Trusted {
		x.retHook = func(v Val) {
			renv := env.child()
			bindResult(renv, v, resultType(fn.Signature))
			save := x.st
			x.st = save.clone()
			for i, e := range fs.Ensures {
				x.oblige("post", fmt.Sprintf("ensures %d: %s", i+1, e), fn.Pos(), x.evalBool(renv, e))
			}
			x.st = save
		}
	}
	x.execFunc(fn, args, free)
	x.retHook = nil
	if c != nil {
		c.mu.Lock()
		c.fns[name+" (verification conditions)"] = true
		for e := range x.externs {
			c.ext[e] = true
		}
		c.mu.Unlock()
	}
	timeout := 30
	if tier == "thorough" {
		timeout = 120
	}
	out := make([]OblResult, len(x.obls))
	var jobs []int
	skipped := map[int]bool{}
	for i, o := range x.obls {
		if kinds != nil && !kinds[o.Kind] {
			continue
		}
		jobs = append(jobs, i)
		if base != nil && !base[o.Name] {
			skipped[i] = true
		}
	}
	if base != nil {
		// if some inventory obligation of this function was not generated, sites were edited: solve everything
		gen := map[string]bool{}
		for _, o := range x.obls {
			gen[o.Name] = true
		}
		for n := range base {
			if strings.HasPrefix(n, name+"#") && !gen[n] {
				skipped = map[int]bool{}
				break
			}
		}
	}
	sem := make(chan struct{}, 4)
	done := make(chan int, len(jobs))
	for _, i := range jobs {
		go func(i int) {
			sem <- struct{}{}
			defer func() { <-sem; done <- i }()
			o := x.obls[i]
			if skipped[i] {
				out[i] = OblResult{Name: o.Name, Status: "skipped", Kind: o.Kind, Site: o.Site, Func: o.Func, Order: i}
				return
			}
			pre := strings.Join(x.sc.lines[:o.Prefix], "\n") + "\n"
			q := pre + x.strLitDeclsFor(pre) + x.instances(o.Prefix) + "(assert " + o.Cond + ")\n(assert (not " + o.Goal + "))\n"
			var r OblResult
			if fast := solveOneCtx(context.Background(), o.Name, instVariant(q), 3, "z3-new-5.1.0"); fast.Status == "unsat" && tier != "thorough" {
				r = OblResult{Name: o.Name, Status: "proved", Solver: fast.Solver, Secs: fast.Secs, SMTBytes: len(q), Query: q}
			} else {
				r = decide(o.Name, q, timeout, tier == "thorough")
			}
			if r.Status == "proved" && (o.Kind == "assert" || (coverAll && o.Kind != "panic")) {
				// vacuity guard: a site assertion is placed where its author expects execution to
				// arrive; if the path condition itself is unsatisfiable under the engine's
				// assumptions the "proof" says nothing and is not counted
				cover := pre + x.strLitDeclsFor(pre) + x.instances(o.Prefix) + "(assert " + o.Cond + ")\n"
				ct := 10
				if o.Kind != "assert" {
					ct = 3
				}
				c := solveOneCtx(context.Background(), o.Name+".cover", instVariant(cover), ct, "z3-new-5.1.0")
				if c.Status != "unsat" && coverAll {
					// diagnostic sweep: also the exact query (quantified axioms kept)
					c = solveOneCtx(context.Background(), o.Name+".cover", cover, 5, "z3-new-5.1.0")
				}
				if c.Status == "unsat" {
					if d := os.Getenv("GOVC_VACDUMP"); d != "" {
						os.MkdirAll(d, 0o755)
						os.WriteFile(d+"/"+sanitize(o.Name)+".smt2", []byte(cover+"(check-sat)\n"), 0o644)
					}
					r.Status = "unknown"
					r.Detail = "vacuous: the site is unreachable under the engine's assumptions (path condition unsatisfiable), nothing is proved about it"
				}
			}
			r.Kind, r.Site, r.Func, r.Order = o.Kind, o.Site, o.Func, i
			out[i] = r
		}(i)
	}
	for range jobs {
		<-done
	}
	for _, i := range jobs {
		res = append(res, out[i])
	}
	// frame obligation: everything the body may write is covered by the modifies clause
	if fs.Modifies != nil {
		w := x.fnWrites(fn)
		var pats []*regexp.Regexp
		allocOK := false
		for _, m := range fs.Modifies {
			if m == "alloc" {
				allocOK = true
				continue
			}
			if m == "nothing" {
				continue
			}
			pats = append(pats, regexp.MustCompile(globToRegexp(m)))
		}
		var bad []string
		if w.all {
			bad = append(bad, "(unknown code: everything)")
		}
		if w.alloc && !allocOK {
			bad = append(bad, "allocation")
		}
		for k := range w.keys {
			if strings.HasPrefix(k, "@") {
				k = k[1:]
			}
			ok := false
			for _, re := range pats {
				if re.MatchString(k) {
					ok = true
				}
			}
			if !ok {
				bad = append(bad, k)
			}
		}
		sort.Strings(bad)
		r := OblResult{Name: name + "#frame:modifies " + strings.Join(fs.Modifies, " "), Status: "proved", Kind: "frame", Func: name, Site: "modifies " + strings.Join(fs.Modifies, " "), Solver: "static may-write analysis over go/ssa", Order: len(x.obls)}
		if len(bad) > 0 {
			r.Status = "failed"
			if len(bad) > 12 && os.Getenv("GOVC_WSDEBUG") == "" {
				bad = append(bad[:12], "...")
			}
			r.Detail = "the body may write " + strings.Join(bad, ", ")
		}
		res = append(res, r)
	}
	// a site assertion whose text matches no statement no longer says anything about the code
	for i, sa := range fs.Asserts {
		if !x.firedAsserts[i] {
			res = append(res, OblResult{Name: name + "#contract:", Status: "unbound", Kind: "contract", Func: name,
				Detail: fmt.Sprintf("contract: site assertion at %q matches no statement of the function", sa.At)})
			break
		}
	}
	// a `reads` clause covers everything the body may read
	if len(fs.Reads) > 0 && !fs.Trusted {
		rs := x.fnReads(fn)
		var pats []*regexp.Regexp
		for _, m := range fs.Reads {
			pats = append(pats, regexp.MustCompile(globToRegexp(m)))
		}
		var bad []string
		if rs.all {
			bad = append(bad, "(unknown code: everything)")
		}
		for k := range rs.keys {
			k = strings.TrimPrefix(k, "@")
			ok := false
			for _, re := range pats {
				if re.MatchString(k) {
					ok = true
				}
			}
			if !ok {
				bad = append(bad, k)
			}
		}
		sort.Strings(bad)
		r := OblResult{Name: name + "#frame:reads " + strings.Join(fs.Reads, " "), Status: "proved", Kind: "frame", Func: name, Site: "reads " + strings.Join(fs.Reads, " "), Solver: "static may-read analysis over go/ssa", Order: len(x.obls)}
		if len(bad) > 0 {
			r.Status = "failed"
			if len(bad) > 12 {
				bad = append(bad[:12], "...")
			}
			r.Detail = "the body may read " + strings.Join(bad, ", ")
		}
		res = append(res, r)
	}
	// a function declared pure writes nothing and allocates nothing
	if fs.Pure && !fs.Trusted {
		w := x.fnWrites(fn)
		var bad []string
		if w.all {
			bad = append(bad, "(unknown code: everything)")
		}
		if w.alloc {
			bad = append(bad, "allocation")
		}
		for k := range w.keys {
			bad = append(bad, strings.TrimPrefix(k, "@"))
		}
		sort.Strings(bad)
		r := OblResult{Name: name + "#frame:pure", Status: "proved", Kind: "frame", Func: name, Site: "pure", Solver: "static may-write analysis over go/ssa", Order: len(x.obls)}
		if len(bad) > 0 {
			r.Status = "failed"
			if len(bad) > 12 {
				bad = append(bad[:12], "...")
			}
			r.Detail = "the body may write " + strings.Join(bad, ", ")
		}
		res = append(res, r)
	}
	return res
}

var coverAll = os.Getenv("GOVC_COVERALL") != ""

func init() {
	// sort.Slice / SliceStable: the elements of the slice are permuted.
	sortSlice := func(x *X, w *writeSet, c *ssa.CallCommon) {
		if mi, ok := c.Args[0].(*ssa.MakeInterface); ok {
			if st, ok := mi.X.Type().Underlying().(*types.Slice); ok {
				x.addKeys(w, loc{key: "E:" + typeKey(st.Elem()), idx: []string{"a", "i"}}, st.Elem())
				if mc, ok := c.Args[1].(*ssa.MakeClosure); ok {
					w.union(x.fnWrites(mc.Fn.(*ssa.Function)))
				}
				return
			}
		}
		w.all = true
	}
	externWrites["sort.Slice"] = sortSlice
	externWrites["sort.SliceStable"] = sortSlice
	externWrites["sort.Strings"] = func(x *X, w *writeSet, c *ssa.CallCommon) {
		x.addKeys(w, loc{key: "E:string", idx: []string{"a", "i"}}, types.Typ[types.String])
	}
}

func closureTargets(v ssa.Value, seen map[ssa.Value]bool) ([]*ssa.Function, bool) {
	if seen[v] {
		return nil, true
	}
	seen[v] = true
	switch v := v.(type) {
	case *ssa.MakeClosure:
		return []*ssa.Function{v.Fn.(*ssa.Function)}, true
	case *ssa.Function:
		return []*ssa.Function{v}, true
	case *ssa.Phi:
		var out []*ssa.Function
		for _, e := range v.Edges {
			fs, ok := closureTargets(e, seen)
			if !ok {
				return nil, false
			}
			out = append(out, fs...)
		}
		return out, true
	}
	return nil, false
}

// varargsLen: the second argument of append is a slice of a freshly allocated
// array of constant length (what `append(s, a, b)` compiles to); 0 otherwise.
func varargsLen(c *ssa.CallCommon) int {
	if len(c.Args) != 2 {
		return 0
	}
	sl, ok := c.Args[1].(*ssa.Slice)
	if !ok || sl.Low != nil || sl.High != nil {
		return 0
	}
	al, ok := sl.X.(*ssa.Alloc)
	if !ok {
		return 0
	}
	at, ok := al.Type().(*types.Pointer).Elem().Underlying().(*types.Array)
	if !ok {
		return 0
	}
	return int(at.Len())
}

// peelLoop runs the loop once from its entry state. When every back edge is
// infeasible there, the exits of that pass are exact and are the loop's whole
// effect (done). Otherwise, if nothing computed inside the loop is used after
// it, the exits of the first pass are still kept as they are (they take
// precedence where their conditions hold) and the generic treatment that
// follows only has to stand for the passes after the first: rest is the
// condition under which there is one.
func (x *X) peelLoop(fr *frame, order []*ssa.BasicBlock, li *loopInfo, entry *State, entryVals map[*ssa.Phi]Val, phis []*ssa.Phi) (done bool, rest string) {
	h := li.header
	var sub []*ssa.BasicBlock
	for _, b := range order {
		if li.blocks[b.Index] {
			sub = append(sub, b)
		}
	}
	pass := func() []edge {
		for _, b := range sub[1:] {
			fr.in[b.Index] = nil
		}
		for _, phi := range phis {
			fr.vals[phi] = entryVals[phi]
		}
		saveLoop, saveExits, saveIn := fr.inLoop, fr.exitsTo, fr.in[h.Index]
		fr.inLoop, fr.exitsTo = li, nil
		fr.in[h.Index] = []edge{{from: -1, to: h.Index, st: entry.clone()}}
		x.runBlock(fr, h, li.blocks)
		x.runBlocks(fr, sub[1:], li.blocks)
		exits := fr.exitsTo
		fr.inLoop, fr.exitsTo = saveLoop, saveExits
		fr.in[h.Index] = saveIn
		return exits
	}
	saveSt := x.st
	x.noOblig++
	trial := pass()
	x.noOblig--
	var backs []string
	for _, e := range trial {
		if e.to == h.Index && !x.unreachable(e.st.cond) {
			backs = append(backs, e.st.cond)
		}
	}
	if len(backs) == 0 {
		for _, e := range pass() {
			if e.to != h.Index {
				fr.in[e.to] = append(fr.in[e.to], e)
			}
		}
		for _, phi := range phis {
			fr.vals[phi] = entryVals[phi]
		}
		return true, ""
	}
	for _, b := range sub[1:] {
		fr.in[b.Index] = nil
	}
	x.st = saveSt
	if !loopValuesStayInside(fr.fn, li) {
		return false, ""
	}
	for _, e := range trial {
		if e.to != h.Index {
			fr.in[e.to] = append(fr.in[e.to], e)
		}
	}
	if len(backs) == 1 {
		return false, backs[0]
	}
	return false, "(or " + strings.Join(backs, " ") + ")"
}

// loopValuesStayInside: no value computed in the loop is used outside of it.
// siteAssertsNameLoopLocals reports whether a site assertion of the function
// mentions a source-level name that is assigned inside the loop. Such a loop is
// not peeled: after peeling, the exits of the first pass and of the later
// passes are joined, and a name would resolve to the value of the later passes
// on both (the code itself does not use these values after the loop, an
// assertion at an exit of the loop may).
func (x *X) siteAssertsNameLoopLocals(fn *ssa.Function, li *loopInfo) bool {
	if len(x.siteAsserts) == 0 {
		return false
	}
	for _, b := range fn.Blocks {
		if !li.blocks[b.Index] {
			continue
		}
		for _, in := range b.Instrs {
			d, ok := in.(*ssa.DebugRef)
			if !ok {
				continue
			}
			id, ok := d.Expr.(*ast.Ident)
			if !ok || id.Name == "_" {
				continue
			}
			re := regexp.MustCompile(`\b` + regexp.QuoteMeta(id.Name) + `\b`)
			for _, sa := range x.siteAsserts {
				if re.MatchString(sa.Expr) {
					return true
				}
			}
		}
	}
	return false
}

func loopValuesStayInside(fn *ssa.Function, li *loopInfo) bool {
	for _, b := range fn.Blocks {
		if !li.blocks[b.Index] {
			continue
		}
		for _, in := range b.Instrs {
			v, ok := in.(ssa.Value)
			if !ok || v.Referrers() == nil {
				continue
			}
			for _, r := range *v.Referrers() {
				if r.Block() != nil && !li.blocks[r.Block().Index] {
					return false
				}
			}
		}
	}
	return true
}
