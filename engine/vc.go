package main

import (
	"golang.org/x/tools/go/ssa"
)

func (x *X) appendVC(fr *frame, in ssa.Instruction, c *ssa.CallCommon, args []Val) Val {
	unsup("append not implemented yet")
	return nil
}

func (x *X) copyVC(fr *frame, in ssa.Instruction, c *ssa.CallCommon, args []Val) Val {
	unsup("copy not implemented yet")
	return nil
}

func (x *X) callContract(f *ssa.Function, fs *FuncSpec, args []Val, in ssa.Instruction) Val {
	unsup("contract calls not implemented yet")
	return nil
}
