package main

// own.go: frame / ownership checker (property C05).
//
// Claim checked: Resolve (npm, maven, pypi) and everything it calls writes only
// memory allocated during the call. It must not write memory owned by the
// resolve.Client (anything reachable from values returned by the client's
// methods), package-level variables, or the resolver object itself (except the
// PyPI resolver's LRU memo caches, which are trusted "memo" effects).
//
// Technique: whole-program, inclusion-based (Andersen) points-to analysis over
// go/ssa, field-sensitive (every struct/array/tuple is flattened into one node
// per leaf, as in the former golang.org/x/tools/go/pointer), flow-insensitive
// except for local variables, whose content is tracked flow-sensitively while
// their address has not escaped (see "private locals" below), and
// context-insensitive except that (a) every entry point is analysed separately
// and (b) package initialisers are analysed in a separate "init" context so
// that memory allocated at init time is GLOBAL while memory allocated by the
// same code during Resolve is FRESH. The call graph is built on the fly from
// points-to sets.
//
// Abstract objects carry a region:
//   FRESH    allocated during the analysed call (Alloc, make, append growth,
//            boxing, composite literals, results of modelled library
//            allocators) or a local;
//   CLIENT   anything reachable from a value returned by a resolve.Client
//            method called through the interface (one opaque object per call
//            site), or - for the LocalClient entry points - the receiver state;
//   RESOLVER the Resolve receiver and everything reachable from it;
//   MEMO     values handed out by the PyPI LRU caches (shared between calls);
//   GLOBAL   package-level variables and memory allocated by initialisers;
//   CALLER   other caller-owned arguments (the context);
//   UNKNOWN  results of unmodelled code.
// Non-fresh regions use *opaque* objects: a single node that points to
// itself, so everything loaded from it (elements, fields, inner maps) is again
// the same object and hence the same region. That is exact enough because the
// only question asked of such memory is "is it written?".
//
// Trusted / assumed (not proved):
//   - the library model table in (*oa).extern (which stdlib functions write
//     which argument; which are pure); calls outside deps.dev/ are never
//     descended into, anything not in the table is reported as failed;
//   - (*lru.Cache).Add/Get are allowed memo effects and are not descended into
//     (obligations of Kind "frame-memo"); values obtained from Get are MEMO
//     memory, values passed to Add flow back out of Get;
//   - no unsafe, reflection-based mutation, cgo or goroutines in the analysed
//     code (go statements, select and unsafe.Pointer conversions are reported
//     as failed);
//   - closed world for interfaces declared in deps.dev packages; values of
//     opaque dynamic type are resolved by class-hierarchy analysis over the
//     deps.dev types, other implementations of error / context.Context /
//     fmt.Stringer (e.g. the client's own error values) are trusted;
//   - constant-false branches (if debug {...}) are dead.
//
// Known limitations:
//   - the heap is flow-insensitive and objects are named by allocation site:
//     "x.f = a; x.f[0] = v ... later x.f = global" makes the element store a
//     possible global write (two such false alarms in util/semver, caused by
//     MinVersion storing the package-level slice minPre into Version.pre);
//     only basic-block-local store-to-load forwarding and the flow-sensitive
//     treatment of unescaped locals mitigate this;
//   - arrays and slices are index-insensitive, maps key-insensitive;
//   - path-insensitive, except for constant conditions and nil tests of
//     unescaped local fields;
//   - one context per entry point (plus the init context): a helper called with
//     client data in one place and fresh data in another fails as a whole;
//   - a value is not tracked as shared after it has been handed to
//     (*lru.Cache).Add: a later write through the original pointer is not
//     reported (a write through a pointer obtained from Get is);
//   - append is always a possible in-place write to its first argument (no
//     capacity reasoning).

import (
	"fmt"
	"go/ast"
	"go/token"
	"go/types"
	"sort"
	"strings"

	"golang.org/x/tools/go/ssa"
	"golang.org/x/tools/go/types/typeutil"
)

type oaNodeID int32

type oaRegion uint8

const (
	oaFresh oaRegion = iota
	oaClient
	oaResolver
	oaMemo
	oaGlobal
	oaCaller
	oaUnknown
	oaCode
)

func (r oaRegion) String() string {
	return [...]string{"FRESH", "CLIENT", "RESOLVER", "MEMO", "GLOBAL", "CALLER", "UNKNOWN", "CODE"}[r]
}

// oaObj is an abstract object: a block of nodes [start, start+size).
type oaObj struct {
	start       oaNodeID
	size        int
	region      oaRegion
	typ         types.Type // content type; dynamic type of the payload for boxes
	tagged      bool       // interface box: payload at start+1
	opaque      bool       // single self-pointing node
	lib         bool       // opaque value whose dynamic type is a library type (fmt.Errorf, errors.New)
	fn          *oaFunc    // function object
	desc        string
	pos         token.Pos
	scratchF    *oaFunc // scratch object of a soft-escape call
	scratchCall ssa.Instruction
}

type oaProv struct {
	node oaNodeID // predecessor node, -1 for the origin
	elem oaNodeID // element in the predecessor it derives from
}

const (
	nkReg uint8 = iota
	nkParam
	nkFree
	nkResult
	nkObj
	nkTmp
	nkPersist
	nkUse
)

type oaNode struct {
	pts     map[oaNodeID]oaProv
	delta   []oaNodeID
	succs   []oaNodeID
	succSet map[oaNodeID]struct{}
	cons    []oaCons
	obj     *oaObj
	label   string
	fn      *oaFunc
	kind    uint8
	queued  bool
}

type oaCons interface {
	onAddr(a *oa, e oaNodeID)
}

type oaLayout struct {
	size   int
	off    []int        // struct: per field; tuple: per component; array: [1]
	leaves []types.Type // nil for identity nodes
}

type oaInstKey struct {
	fn   *ssa.Function
	init bool
}

// oaFunc is a function instance (function x context).
type oaFunc struct {
	fn        *ssa.Function
	init      bool
	params    oaNodeID
	paramOff  []int
	fvs       oaNodeID
	fvOff     []int
	fvSize    int
	results   oaNodeID
	resSize   int
	vals      map[ssa.Value]oaNodeID
	obj       *oaObj
	generated bool
	names     map[ssa.Value]string
	uses      map[oaUseKey]oaNodeID
	priv      map[*ssa.Alloc]*oaPriv
	derivedOf map[ssa.Value]*oaPriv
	access    map[ssa.Instruction][]oaAccess
	forward   map[*ssa.UnOp]ssa.Value
}

type oaArg struct {
	n oaNodeID
	t types.Type
}

// oaSite is a write site (or an unmodelled effect).
type oaSite struct {
	f     *oaFunc
	ins   ssa.Instruction
	kind  string
	what  string
	ptr   []oaNodeID // targets = union of pts
	boxed []oaNodeID // interface nodes: targets = arrays of the boxed slices
	fail  string     // unconditional failure
	memo  bool
}

type oa struct {
	prog      *Prog
	nodes     []oaNode
	work      []oaNodeID
	layouts   typeutil.Map
	insts     map[oaInstKey]*oaFunc
	globals   map[*ssa.Global]*oaObj
	panicNode oaNodeID
	sites     []*oaSite
	siteSeen  map[string]bool
	retaining map[ssa.Instruction]bool
	anomalies map[string]bool
	memo      map[string]oaNodeID
	fmtTmp    map[string]oaNodeID
	fmtSeen   map[string]bool
	impls     map[string][]types.Type
	unmodel   map[string]bool
	objs      []*oaObj
}

func newOA(prog *Prog, retaining map[ssa.Instruction]bool) *oa {
	a := &oa{prog: prog, insts: map[oaInstKey]*oaFunc{}, globals: map[*ssa.Global]*oaObj{},
		siteSeen: map[string]bool{}, retaining: retaining, anomalies: map[string]bool{},
		memo: map[string]oaNodeID{}, fmtTmp: map[string]oaNodeID{}, fmtSeen: map[string]bool{},
		impls: map[string][]types.Type{}, unmodel: map[string]bool{}}
	a.panicNode = a.newNodes(1, "panic value", nil, nkPersist)
	return a
}

func (a *oa) anomaly(format string, args ...any) {
	a.anomalies[fmt.Sprintf(format, args...)] = true
}

// ---------------------------------------------------------------- nodes, objects

func (a *oa) newNodes(n int, label string, fn *oaFunc, kind uint8) oaNodeID {
	start := oaNodeID(len(a.nodes))
	for i := 0; i < n; i++ {
		a.nodes = append(a.nodes, oaNode{label: label, fn: fn, kind: kind})
	}
	return start
}

func (a *oa) regionFor(init bool) oaRegion {
	if init {
		return oaGlobal
	}
	return oaFresh
}

func (a *oa) newObjN(size int, t types.Type, region oaRegion, desc string, pos token.Pos) *oaObj {
	o := &oaObj{size: size, typ: t, region: region, desc: desc, pos: pos}
	o.start = a.newNodes(size, "", nil, nkObj)
	for i := 0; i < size; i++ {
		a.nodes[int(o.start)+i].obj = o
	}
	a.objs = append(a.objs, o)
	return o
}

func (a *oa) newObj(t types.Type, region oaRegion, desc string, pos token.Pos) *oaObj {
	return a.newObjN(a.layout(t).size, t, region, desc, pos)
}

func (a *oa) newArray(elem types.Type, region oaRegion, desc string, pos token.Pos) *oaObj {
	return a.newObjN(1+a.layout(elem).size, types.NewArray(elem, 1), region, desc, pos)
}

func (a *oa) newOpaque(region oaRegion, desc string, pos token.Pos) *oaObj {
	o := a.newObjN(1, nil, region, desc, pos)
	o.opaque = true
	a.addPts(o.start, o.start, oaProv{-1, 0})
	return o
}

func (a *oa) newBox(t types.Type, region oaRegion, desc string, pos token.Pos) *oaObj {
	o := a.newObjN(1+a.layout(t).size, t, region, desc, pos)
	o.tagged = true
	return o
}

func (a *oa) layout(t types.Type) *oaLayout {
	t = types.Unalias(t)
	switch t.(type) {
	case *types.Basic, *types.Named, *types.Pointer, *types.Slice, *types.Map, *types.Chan, *types.Signature,
		*types.Interface, *types.Struct, *types.Array, *types.Tuple, *types.TypeParam:
	default: // go/ssa's opaque iterator type
		return &oaLayout{size: 1, leaves: []types.Type{nil}}
	}
	if l := a.layouts.At(t); l != nil {
		return l.(*oaLayout)
	}
	l := &oaLayout{}
	switch u := t.Underlying().(type) {
	case *types.Struct:
		l.size = 1
		l.leaves = []types.Type{nil}
		for i := 0; i < u.NumFields(); i++ {
			fl := a.layout(u.Field(i).Type())
			l.off = append(l.off, l.size)
			l.size += fl.size
			l.leaves = append(l.leaves, fl.leaves...)
		}
	case *types.Array:
		el := a.layout(u.Elem())
		l.size = 1 + el.size
		l.off = []int{1}
		l.leaves = append([]types.Type{nil}, el.leaves...)
	case *types.Tuple:
		for i := 0; i < u.Len(); i++ {
			fl := a.layout(u.At(i).Type())
			l.off = append(l.off, l.size)
			l.size += fl.size
			l.leaves = append(l.leaves, fl.leaves...)
		}
	default:
		l.size = 1
		l.leaves = []types.Type{t}
	}
	a.layouts.Set(t, l)
	return l
}

func (a *oa) sizeof(t types.Type) int { return a.layout(t).size }

func oaPointerLike(t types.Type) bool {
	if t == nil {
		return false
	}
	switch u := t.Underlying().(type) {
	case *types.Basic:
		return u.Kind() == types.UnsafePointer
	case *types.Pointer, *types.Slice, *types.Map, *types.Chan, *types.Signature, *types.Interface:
		return true
	}
	return false
}

func (a *oa) hasPointers(t types.Type) bool {
	for _, l := range a.layout(t).leaves {
		if oaPointerLike(l) {
			return true
		}
	}
	return false
}

// ---------------------------------------------------------------- solver

func (a *oa) addPts(n, e oaNodeID, p oaProv) bool {
	nd := &a.nodes[n]
	if nd.pts == nil {
		nd.pts = map[oaNodeID]oaProv{}
	}
	if _, ok := nd.pts[e]; ok {
		return false
	}
	nd.pts[e] = p
	nd.delta = append(nd.delta, e)
	if !nd.queued {
		nd.queued = true
		a.work = append(a.work, n)
	}
	return true
}

func (a *oa) addr(n oaNodeID, o *oaObj) { a.addPts(n, o.start, oaProv{-1, 0}) }

func (a *oa) addCopy(dst, src oaNodeID) {
	if dst == src {
		return
	}
	nd := &a.nodes[src]
	if nd.succSet == nil {
		nd.succSet = map[oaNodeID]struct{}{}
	}
	if _, ok := nd.succSet[dst]; ok {
		return
	}
	nd.succSet[dst] = struct{}{}
	nd.succs = append(nd.succs, dst)
	if len(nd.pts) > 0 {
		es := make([]oaNodeID, 0, len(nd.pts))
		for e := range nd.pts {
			es = append(es, e)
		}
		sort.Slice(es, func(i, j int) bool { return es[i] < es[j] })
		for _, e := range es {
			a.addPts(dst, e, oaProv{src, e})
		}
	}
}

func (a *oa) copyBlock(dst, src oaNodeID, n int) {
	for i := 0; i < n; i++ {
		a.addCopy(dst+oaNodeID(i), src+oaNodeID(i))
	}
}

func (a *oa) addCons(n oaNodeID, c oaCons) {
	a.nodes[n].cons = append(a.nodes[n].cons, c)
	if len(a.nodes[n].pts) > 0 {
		es := make([]oaNodeID, 0, len(a.nodes[n].pts))
		for e := range a.nodes[n].pts {
			es = append(es, e)
		}
		sort.Slice(es, func(i, j int) bool { return es[i] < es[j] })
		for _, e := range es {
			c.onAddr(a, e)
		}
	}
}

func (a *oa) solve() {
	for len(a.work) > 0 {
		n := a.work[len(a.work)-1]
		a.work = a.work[:len(a.work)-1]
		a.nodes[n].queued = false
		delta := a.nodes[n].delta
		a.nodes[n].delta = nil
		for _, e := range delta {
			for i := 0; i < len(a.nodes[n].cons); i++ {
				a.nodes[n].cons[i].onAddr(a, e)
			}
			for i := 0; i < len(a.nodes[n].succs); i++ {
				a.addPts(a.nodes[n].succs[i], e, oaProv{n, e})
			}
		}
	}
}

// block returns the base of [e+off, e+off+n) if it lies inside e's object.
func (a *oa) inObj(e oaNodeID, off, n int, what string) (oaNodeID, *oaObj, bool) {
	o := a.nodes[e].obj
	if o == nil {
		a.anomaly("%s through a pointer to a non-object node", what)
		return 0, nil, false
	}
	if o.opaque {
		return o.start, o, true
	}
	base := int(e) + off
	if base < int(o.start) || base+n > int(o.start)+o.size {
		a.anomaly("%s outside object %q (offset %d size %d, object size %d)", what, o.desc, int(e)-int(o.start)+off, n, o.size)
		return 0, o, false
	}
	return oaNodeID(base), o, true
}

type oaLoad struct {
	dst, ptr oaNodeID
	off, n   int
}

func (c *oaLoad) onAddr(a *oa, e oaNodeID) {
	base, o, ok := a.inObj(e, c.off, c.n, "load")
	if !ok {
		return
	}
	for i := 0; i < c.n; i++ {
		if o.opaque {
			a.addCopy(c.dst+oaNodeID(i), o.start)
		} else {
			a.addCopy(c.dst+oaNodeID(i), base+oaNodeID(i))
		}
	}
}

type oaStore struct {
	ptr, src oaNodeID
	off, n   int
}

func (c *oaStore) onAddr(a *oa, e oaNodeID) {
	base, o, ok := a.inObj(e, c.off, c.n, "store")
	if !ok {
		return
	}
	for i := 0; i < c.n; i++ {
		if o.opaque {
			a.addCopy(o.start, c.src+oaNodeID(i))
		} else {
			a.addCopy(base+oaNodeID(i), c.src+oaNodeID(i))
		}
	}
}

type oaOffset struct {
	dst, ptr oaNodeID
	off      int
}

func (c *oaOffset) onAddr(a *oa, e oaNodeID) {
	base, _, ok := a.inObj(e, c.off, 1, "address computation")
	if !ok {
		return
	}
	a.addPts(c.dst, base, oaProv{c.ptr, e})
}

func (a *oa) load(dst, ptr oaNodeID, off, n int) {
	if n > 0 {
		a.addCons(ptr, &oaLoad{dst, ptr, off, n})
	}
}
func (a *oa) store(ptr, src oaNodeID, off, n int) {
	if n > 0 {
		a.addCons(ptr, &oaStore{ptr, src, off, n})
	}
}
func (a *oa) offset(dst, ptr oaNodeID, off int) { a.addCons(ptr, &oaOffset{dst, ptr, off}) }

// tmp allocates a transient block (state of a modelled library call).
func (a *oa) tmp(n int, label string) oaNodeID { return a.newNodes(n, label, nil, nkTmp) }

// fillOpaque makes every leaf of the block point to o.
func (a *oa) fillOpaque(dst oaNodeID, n int, o *oaObj) {
	for i := 0; i < n; i++ {
		a.addCopy(dst+oaNodeID(i), o.start)
	}
}

// ---------------------------------------------------------------- functions and values

func oaPkgPath(fn *ssa.Function) string {
	for f := fn; f != nil; f = f.Parent() {
		if f.Pkg != nil {
			return f.Pkg.Pkg.Path()
		}
		if o := f.Object(); o != nil && o.Pkg() != nil {
			return o.Pkg().Path()
		}
		if g := f.Origin(); g != nil {
			if g.Pkg != nil {
				return g.Pkg.Pkg.Path()
			}
			if o := g.Object(); o != nil && o.Pkg() != nil {
				return o.Pkg().Path()
			}
		}
	}
	return ""
}

func oaOurs(path string) bool { return path == "deps.dev" || strings.HasPrefix(path, "deps.dev/") }

// oaExtName is the library name used by the model table: "sort.Slice",
// "(*strings.Builder).WriteString", "slices.Reverse".
func oaExtName(fn *ssa.Function) string {
	g := fn
	if o := fn.Origin(); o != nil {
		g = o
	}
	if obj, ok := g.Object().(*types.Func); ok && obj != nil {
		return obj.FullName()
	}
	return fn.String()
}

func (a *oa) isLRU(fn *ssa.Function) bool {
	if !strings.HasSuffix(oaPkgPath(fn), "/lru") {
		return false
	}
	recv := fn.Signature.Recv()
	if recv == nil {
		return false
	}
	t := recv.Type()
	if p, ok := t.(*types.Pointer); ok {
		t = p.Elem()
	}
	n, ok := types.Unalias(t).(*types.Named)
	return ok && n.Obj().Name() == "Cache"
}

func (a *oa) analysable(fn *ssa.Function) bool {
	if fn.Blocks == nil {
		return false
	}
	p := oaPkgPath(fn)
	if p == "" {
		return true // synthetic wrapper without a package: its body only forwards
	}
	return oaOurs(p)
}

func (a *oa) inst(init bool, fn *ssa.Function) *oaFunc {
	k := oaInstKey{fn, init}
	if f := a.insts[k]; f != nil {
		return f
	}
	f := &oaFunc{fn: fn, init: init, vals: map[ssa.Value]oaNodeID{}, uses: map[oaUseKey]oaNodeID{}}
	a.insts[k] = f
	name := FuncName(fn)
	size := 0
	for _, p := range fn.Params {
		f.paramOff = append(f.paramOff, size)
		size += a.sizeof(p.Type())
	}
	f.params = a.newNodes(size, "", f, nkParam)
	for i, p := range fn.Params {
		for j := 0; j < a.sizeof(p.Type()); j++ {
			a.nodes[int(f.params)+f.paramOff[i]+j].label = p.Name() + " in " + name
		}
	}
	size = 0
	for _, p := range fn.FreeVars {
		f.fvOff = append(f.fvOff, size)
		size += a.sizeof(p.Type())
	}
	f.fvSize = size
	f.fvs = a.newNodes(size, "", f, nkFree)
	for i, p := range fn.FreeVars {
		for j := 0; j < a.sizeof(p.Type()); j++ {
			a.nodes[int(f.fvs)+f.fvOff[i]+j].label = "captured " + p.Name() + " in " + name
		}
	}
	f.resSize = a.sizeof(fn.Signature.Results())
	f.results = a.newNodes(f.resSize, "result of "+name, f, nkResult)
	f.obj = a.newObjN(1, fn.Signature, oaCode, "function "+name, fn.Pos())
	f.obj.fn = f
	return f
}

func (a *oa) global(g *ssa.Global) *oaObj {
	if o := a.globals[g]; o != nil {
		return o
	}
	name := g.Name()
	path := ""
	if g.Pkg != nil {
		path = g.Pkg.Pkg.Path()
		name = g.Pkg.Pkg.Name() + "." + name
	}
	var o *oaObj
	if oaOurs(path) {
		o = a.newObj(g.Type().(*types.Pointer).Elem(), oaGlobal, "package-level variable "+name, g.Pos())
	} else {
		o = a.newOpaque(oaGlobal, "package-level variable "+name+" (library)", g.Pos())
	}
	a.globals[g] = o
	return o
}

func (a *oa) valName(f *oaFunc, v ssa.Value) string {
	if n, ok := f.names[v]; ok {
		return n
	}
	switch v := v.(type) {
	case *ssa.Parameter:
		return v.Name()
	case *ssa.FreeVar:
		return v.Name()
	case *ssa.Alloc:
		if v.Comment != "" {
			return v.Comment
		}
	case *ssa.Phi:
		if v.Comment != "" {
			return v.Comment
		}
	}
	return ""
}

func (a *oa) val(f *oaFunc, v ssa.Value) oaNodeID {
	switch v := v.(type) {
	case *ssa.Const:
		return a.newNodes(a.sizeof(v.Type()), "", f, nkReg)
	case *ssa.Function:
		n := a.newNodes(1, "", f, nkReg)
		a.addr(n, a.inst(f.init, v).obj)
		return n
	case *ssa.Global:
		n := a.newNodes(1, "", f, nkReg)
		a.addr(n, a.global(v))
		return n
	case *ssa.Builtin:
		return a.newNodes(1, "", f, nkReg)
	case *ssa.Parameter:
		for i, p := range f.fn.Params {
			if p == v {
				return f.params + oaNodeID(f.paramOff[i])
			}
		}
	case *ssa.FreeVar:
		for i, p := range f.fn.FreeVars {
			if p == v {
				return f.fvs + oaNodeID(f.fvOff[i])
			}
		}
	}
	if n, ok := f.vals[v]; ok {
		return n
	}
	label := ""
	if nm := a.valName(f, v); nm != "" {
		label = nm + " in " + FuncName(f.fn)
	}
	n := a.newNodes(a.sizeof(v.Type()), label, f, nkReg)
	f.vals[v] = n
	return n
}

// opnd is val, except for the address of a private local passed to a call,
// which is resolved to the scratch object of that call.
func (a *oa) opnd(f *oaFunc, ins ssa.Instruction, v ssa.Value) oaNodeID {
	if n, ok := f.uses[oaUseKey{ins, v}]; ok {
		return n
	}
	return a.val(f, v)
}

// ---------------------------------------------------------------- dead branches

func oaEdgeLive(p *ssa.BasicBlock, succIdx int) bool {
	if len(p.Instrs) == 0 {
		return true
	}
	if br, ok := p.Instrs[len(p.Instrs)-1].(*ssa.If); ok {
		if c, ok := br.Cond.(*ssa.Const); ok && c.Value != nil {
			taken := 1
			if c.Value.String() == "true" {
				taken = 0
			}
			return succIdx == taken
		}
	}
	return true
}

func oaLiveBlocks(fn *ssa.Function) []bool {
	live := make([]bool, len(fn.Blocks))
	var stack []*ssa.BasicBlock
	push := func(b *ssa.BasicBlock) {
		if b != nil && !live[b.Index] {
			live[b.Index] = true
			stack = append(stack, b)
		}
	}
	if len(fn.Blocks) > 0 {
		push(fn.Blocks[0])
	}
	push(fn.Recover)
	for len(stack) > 0 {
		b := stack[len(stack)-1]
		stack = stack[:len(stack)-1]
		for i, s := range b.Succs {
			if oaEdgeLive(b, i) {
				push(s)
			}
		}
	}
	return live
}

func oaPredLive(live []bool, b *ssa.BasicBlock, predIdx int) bool {
	p := b.Preds[predIdx]
	if !live[p.Index] {
		return false
	}
	for i, s := range p.Succs {
		if s == b && oaEdgeLive(p, i) {
			return true
		}
	}
	return false
}

// ---------------------------------------------------------------- private locals
//
// Flow sensitivity for local variables. Go's memory model gives every local
// variable (ssa.Alloc) a cell nobody else can see until its address escapes,
// and a pointer to one field never gives access to a sibling field. While a
// leaf of the cell is PRIVATE its content is tracked like an SSA register by
// reaching definitions over the CFG: a direct store through a constant
// FieldAddr chain is a strong definition, a direct load reads exactly the
// reaching definitions. When the address of a sub-block escapes (stored,
// boxed, returned, captured, sliced, phi'd, passed to defer/go) the reaching
// definitions of its leaves are written to the real abstract object R and from
// then on the leaves are PUBLIC: accesses are ordinary flow-insensitive loads
// and weak stores on R.
//
// Passing the address to an ordinary call is a *soft* escape: the callee gets
// a scratch object O_C holding the reaching definitions (and R), and after the
// call the content of O_C is the (single) reaching definition. This is only
// right if the callee does not keep the pointer; that is checked on the solved
// points-to graph (oaValidateScratch): if anything but registers of other
// functions ends up pointing into O_C the call is "retaining", and the
// analysis is repeated with the leaves going PENDING after that call: they
// stay private only across instructions that cannot touch memory through an
// alias (address arithmetic, register moves, direct accesses to locals) and
// become PUBLIC at the first other instruction.
//
// This proves, e.g., that in
//     dt := idep.Type; if c { dt = dt.Clone(); dt.AddAttr(k, "") }
// AddAttr writes only the cloned map, and that in semver.(*Version).copy
//     n := *v; n.num = n.buf[:k]; ...; n.ext = v.ext.copy(&n); return &n
// the copy does not keep v's num/ext.

const (
	oaPrivate uint8 = iota
	oaPending
	oaPublic
)

type oaLeafState struct {
	st uint8
	rd uint64
}

type oaSub struct {
	off, size int
	weak      bool
}

type oaDef struct {
	ins  ssa.Instruction
	val  ssa.Value // stored value (store definitions)
	lo   int       // first leaf covered
	call bool      // content of the scratch object of ins
}

type oaAccess struct {
	p     *oaPriv
	sub   oaSub
	state []oaLeafState // entry state of the leaves of sub
}

type oaPriv struct {
	al      *ssa.Alloc
	obj     *oaObj
	n       int
	derived map[ssa.Value]oaSub
	defs    []oaDef
	defOf   map[ssa.Instruction]int
	scratch map[ssa.Instruction]*oaObj
	mat     map[[2]int]bool // (leaf, def) to be written to R
}

type oaUseKey struct {
	ins ssa.Instruction
	v   ssa.Value
}

// oaInert reports whether the instruction cannot read or write memory through
// a pointer that is not directly derived from a tracked local.
func oaInert(ins ssa.Instruction) bool {
	switch x := ins.(type) {
	case *ssa.FieldAddr, *ssa.IndexAddr, *ssa.DebugRef, *ssa.BinOp, *ssa.Phi, *ssa.Extract, *ssa.Field, *ssa.Index,
		*ssa.ChangeType, *ssa.ChangeInterface, *ssa.Convert, *ssa.MultiConvert, *ssa.MakeInterface, *ssa.Slice, *ssa.Alloc,
		*ssa.MakeSlice, *ssa.MakeMap, *ssa.MakeChan, *ssa.MakeClosure, *ssa.If, *ssa.Jump, *ssa.TypeAssert, *ssa.SliceToArrayPointer:
		return true
	case *ssa.UnOp:
		return x.Op != token.MUL && x.Op != token.ARROW
	}
	return false
}

func (a *oa) planPrivate(f *oaFunc, live []bool) {
	fn := f.fn
	f.priv = map[*ssa.Alloc]*oaPriv{}
	f.derivedOf = map[ssa.Value]*oaPriv{}
	f.access = map[ssa.Instruction][]oaAccess{}
	if f.init {
		return // initialisers: no obligations, and generated tables make them huge
	}
	for _, b := range fn.Blocks {
		if !live[b.Index] {
			continue
		}
		for _, ins := range b.Instrs {
			if al, ok := ins.(*ssa.Alloc); ok {
				a.planAlloc(f, al, live)
			}
		}
	}
}

func (a *oa) allocDesc(f *oaFunc, al *ssa.Alloc) string {
	name := al.Comment
	if name == "" {
		name = al.Name()
	}
	kind := "local variable "
	if al.Heap {
		kind = "variable or new object "
	}
	return kind + name + " in " + FuncName(f.fn) + " (" + a.shortPos(a.posOf(al)) + ")"
}

func (a *oa) planAlloc(f *oaFunc, al *ssa.Alloc, live []bool) {
	fn := f.fn
	elem := al.Type().(*types.Pointer).Elem()
	p := &oaPriv{al: al, n: a.sizeof(elem), derived: map[ssa.Value]oaSub{}, defOf: map[ssa.Instruction]int{},
		scratch: map[ssa.Instruction]*oaObj{}, mat: map[[2]int]bool{}}
	// derived addresses
	var walk func(v ssa.Value, s oaSub)
	walk = func(v ssa.Value, s oaSub) {
		p.derived[v] = s
		if v.Referrers() == nil {
			return
		}
		for _, r := range *v.Referrers() {
			switch r := r.(type) {
			case *ssa.FieldAddr:
				if r.X == v {
					st := v.Type().Underlying().(*types.Pointer).Elem()
					walk(r, oaSub{s.off + a.layout(st).off[r.Field], a.sizeof(r.Type().Underlying().(*types.Pointer).Elem()), s.weak})
				}
			case *ssa.IndexAddr:
				if r.X == v {
					if at, ok := v.Type().Underlying().(*types.Pointer).Elem().Underlying().(*types.Array); ok {
						walk(r, oaSub{s.off + 1, a.sizeof(at.Elem()), true})
					}
				}
			}
		}
	}
	walk(al, oaSub{0, p.n, false})
	// definitions
	p.defs = []oaDef{{}}
	for _, b := range fn.Blocks {
		if !live[b.Index] {
			continue
		}
		for _, ins := range b.Instrs {
			switch x := ins.(type) {
			case *ssa.Store:
				if s, ok := p.derived[x.Addr]; ok {
					p.defOf[ins] = len(p.defs)
					p.defs = append(p.defs, oaDef{ins: ins, val: x.Val, lo: s.off})
				}
			case *ssa.Call:
				for _, arg := range x.Call.Args {
					if _, ok := p.derived[arg]; ok {
						if _, seen := p.defOf[ins]; !seen {
							p.defOf[ins] = len(p.defs)
							p.defs = append(p.defs, oaDef{ins: ins, call: true})
						}
					}
				}
			}
		}
	}
	if len(p.defs) > 63 {
		return // too many definitions: plain flow-insensitive treatment
	}
	p.obj = a.newObj(elem, a.regionFor(f.init), a.allocDesc(f, al), al.Pos())
	f.priv[al] = p
	for v := range p.derived {
		f.derivedOf[v] = p
	}

	n := p.n
	join := func(dst, src []oaLeafState) {
		for i := range dst {
			if src[i].st > dst[i].st {
				dst[i].st = src[i].st
			}
			dst[i].rd |= src[i].rd
		}
	}
	publish := func(s []oaLeafState, sub oaSub) {
		for i := sub.off; i < sub.off+sub.size; i++ {
			s[i].st = oaPublic
		}
	}
	// transfer applies instruction ins to state s; when rec is set it records
	// the entry states of accesses and the scratch objects.
	transfer := func(ins ssa.Instruction, s []oaLeafState, rec bool) {
		if ins == ssa.Instruction(al) {
			for i := range s {
				s[i] = oaLeafState{oaPrivate, 1}
			}
			return
		}
		if !oaInert(ins) {
			direct := false
			switch x := ins.(type) {
			case *ssa.Store:
				_, direct = f.derivedOf[x.Addr]
			case *ssa.UnOp:
				_, direct = f.derivedOf[x.X]
			}
			if !direct {
				for i := range s {
					if s[i].st == oaPending {
						s[i].st = oaPublic
					}
				}
			}
		}
		snap := func(sub oaSub) []oaLeafState {
			return append([]oaLeafState(nil), s[sub.off:sub.off+sub.size]...)
		}
		switch x := ins.(type) {
		case *ssa.DebugRef, *ssa.FieldAddr, *ssa.IndexAddr:
			return
		case *ssa.Store:
			if sub, ok := p.derived[x.Val]; ok {
				publish(s, sub)
			}
			if sub, ok := p.derived[x.Addr]; ok {
				if rec {
					f.access[ins] = append(f.access[ins], oaAccess{p, sub, snap(sub)})
				}
				d := uint64(1) << uint(p.defOf[ins])
				for i := sub.off; i < sub.off+sub.size; i++ {
					if s[i].st == oaPublic {
						continue
					}
					if sub.weak {
						s[i].rd |= d
					} else {
						s[i].rd = d
					}
				}
			}
			return
		case *ssa.UnOp:
			if sub, ok := p.derived[x.X]; ok {
				if x.Op == token.MUL {
					if rec {
						f.access[ins] = append(f.access[ins], oaAccess{p, sub, snap(sub)})
					}
				} else {
					publish(s, sub)
				}
			}
			return
		case *ssa.Call:
			var subs []oaSub
			if sub, ok := p.derived[x.Call.Value]; ok {
				publish(s, sub)
			}
			for _, arg := range x.Call.Args {
				if sub, ok := p.derived[arg]; ok {
					subs = append(subs, sub)
				}
			}
			if len(subs) == 0 {
				return
			}
			// Leaves that are already public stay public (the callee reaches them
			// through R); private leaves are handed over in the scratch object.
			if rec {
				o := a.newObj(al.Type().(*types.Pointer).Elem(), a.regionFor(f.init), a.allocDesc(f, al)+" as seen by the call at "+a.shortPos(a.posOf(ins)), al.Pos())
				o.scratchF, o.scratchCall = f, ins
				p.scratch[ins] = o
				for _, sub := range subs {
					f.access[ins] = append(f.access[ins], oaAccess{p, sub, snap(sub)})
				}
			}
			d := uint64(1) << uint(p.defOf[ins])
			after := oaPrivate
			if a.retaining[ins] {
				after = oaPending
			}
			for _, sub := range subs {
				for i := sub.off; i < sub.off+sub.size; i++ {
					if s[i].st != oaPublic {
						s[i] = oaLeafState{after, d}
					}
				}
			}
			return
		}
		// every other use of a derived address is an escape
		for _, op := range ins.Operands(nil) {
			if *op == nil {
				continue
			}
			if sub, ok := p.derived[*op]; ok {
				publish(s, sub)
			}
		}
	}
	in := make([][]oaLeafState, len(fn.Blocks))
	out := make([][]oaLeafState, len(fn.Blocks))
	// Nil-test refinement: on the edge where "*(&local.f) == nil" holds the leaf is
	// nil, i.e. only the zero definition reaches.
	type nilEdge struct {
		sub  oaSub
		succ *ssa.BasicBlock
	}
	nilEdges := map[*ssa.BasicBlock]nilEdge{}
	for _, b := range fn.Blocks {
		if !live[b.Index] || len(b.Instrs) == 0 || len(b.Succs) != 2 || b.Succs[0] == b.Succs[1] {
			continue
		}
		br, ok := b.Instrs[len(b.Instrs)-1].(*ssa.If)
		if !ok {
			continue
		}
		cmp, ok := br.Cond.(*ssa.BinOp)
		if !ok || (cmp.Op != token.EQL && cmp.Op != token.NEQ) {
			continue
		}
		x, c := cmp.X, cmp.Y
		if k, ok := x.(*ssa.Const); ok && k.IsNil() {
			x, c = c, x
		}
		if k, ok := c.(*ssa.Const); !ok || !k.IsNil() {
			continue
		}
		ld, ok := x.(*ssa.UnOp)
		if !ok || ld.Op != token.MUL || ld.Block() != b {
			continue
		}
		sub, ok := p.derived[ld.X]
		if !ok || sub.weak {
			continue
		}
		clean := true
		for k := oaInstrIndex(b, ld) + 1; k < len(b.Instrs); k++ {
			switch y := b.Instrs[k].(type) {
			case *ssa.Store:
				if _, d := p.derived[y.Addr]; d {
					clean = false
				}
			case *ssa.Call:
				if _, d := p.defOf[y]; d {
					clean = false
				}
			case *ssa.Alloc:
				if y == al {
					clean = false
				}
			}
		}
		if !clean {
			continue
		}
		succ := b.Succs[0]
		if cmp.Op == token.NEQ {
			succ = b.Succs[1]
		}
		nilEdges[b] = nilEdge{sub, succ}
	}
	edgeState := func(pr, b *ssa.BasicBlock) []oaLeafState {
		s := out[pr.Index]
		ne, ok := nilEdges[pr]
		if !ok || ne.succ != b {
			return s
		}
		s = append([]oaLeafState(nil), s...)
		for i := ne.sub.off; i < ne.sub.off+ne.sub.size; i++ {
			if s[i].st != oaPublic {
				s[i].rd = 1
			}
		}
		return s
	}
	for i := range in {
		in[i] = make([]oaLeafState, n)
		out[i] = make([]oaLeafState, n)
	}
	iter := 0
	for changed := true; changed; {
		changed = false
		iter++
		if iter > 200 {
			fmt.Printf("DEBUG no convergence: %s alloc %s n=%d defs=%d\n", FuncName(fn), al.Comment, n, len(p.defs))
			break
		}
		for _, b := range fn.Blocks {
			if !live[b.Index] {
				continue
			}
			s := make([]oaLeafState, n)
			for i, pr := range b.Preds {
				if oaPredLive(live, b, i) {
					join(s, edgeState(pr, b))
				}
			}
			copy(in[b.Index], s)
			for _, ins := range b.Instrs {
				transfer(ins, s, false)
			}
			for i := range s {
				if s[i] != out[b.Index][i] {
					changed = true
				}
			}
			copy(out[b.Index], s)
		}
	}
	note := func(s []oaLeafState) {
		for i := range s {
			if s[i].st == oaPublic {
				for d := 1; d < len(p.defs); d++ {
					if s[i].rd&(1<<uint(d)) != 0 {
						p.mat[[2]int{i, d}] = true
					}
				}
			}
		}
	}
	for _, b := range fn.Blocks {
		if !live[b.Index] {
			continue
		}
		s := append([]oaLeafState(nil), in[b.Index]...)
		note(s)
		for _, ins := range b.Instrs {
			transfer(ins, s, true)
			note(s)
		}
	}
}

// planForward: store-to-load forwarding inside a basic block for single-leaf
// struct fields on the heap ("p.version.pre = make(...); p.version.pre[0] = x"
// reads back exactly the slice just stored). Addresses are compared by value
// numbering of FieldAddr chains; a store to field f of struct type S only
// invalidates what is known about fields (S, f) (Go without unsafe: a field
// location can only be written through a FieldAddr of the same struct type and
// field, through a pointer to the field, or by a store of an enclosing
// aggregate; the latter two, and every call, forget everything). Element
// stores through IndexAddr of a single-leaf element cannot alias a field.
func (a *oa) planForward(f *oaFunc, live []bool) {
	f.forward = map[*ssa.UnOp]ssa.Value{}
	if f.init {
		return
	}
	type faKey struct {
		base  ssa.Value
		field int
	}
	for _, b := range f.fn.Blocks {
		if !live[b.Index] {
			continue
		}
		canon := map[ssa.Value]ssa.Value{}
		rep := func(v ssa.Value) ssa.Value {
			for {
				c, ok := canon[v]
				if !ok {
					return v
				}
				v = c
			}
		}
		fa := map[faKey]*ssa.FieldAddr{}
		avail := map[*ssa.FieldAddr]ssa.Value{}
		single := func(x *ssa.FieldAddr) bool {
			return a.sizeof(x.Type().Underlying().(*types.Pointer).Elem()) == 1
		}
		structOf := func(x *ssa.FieldAddr) types.Type {
			return x.X.Type().Underlying().(*types.Pointer).Elem().Underlying()
		}
		for _, ins := range b.Instrs {
			switch x := ins.(type) {
			case *ssa.FieldAddr:
				k := faKey{rep(x.X), x.Field}
				if r, ok := fa[k]; ok {
					canon[x] = r
				} else {
					fa[k] = x
				}
			case *ssa.UnOp:
				if x.Op != token.MUL {
					if x.Op == token.ARROW {
						avail = map[*ssa.FieldAddr]ssa.Value{}
					}
					continue
				}
				if r, ok := rep(x.X).(*ssa.FieldAddr); ok && single(r) {
					if v, ok := avail[r]; ok {
						f.forward[x] = v
						canon[x] = rep(v)
					} else {
						avail[r] = x
					}
				}
			case *ssa.Store:
				switch r := rep(x.Addr).(type) {
				case *ssa.FieldAddr:
					if !single(r) {
						avail = map[*ssa.FieldAddr]ssa.Value{}
						continue
					}
					for k := range avail {
						if k.Field == r.Field && types.Identical(structOf(k), structOf(r)) {
							delete(avail, k)
						}
					}
					avail[r] = x.Val
				case *ssa.IndexAddr:
					if a.sizeof(x.Val.Type()) != 1 {
						avail = map[*ssa.FieldAddr]ssa.Value{}
					}
				default:
					avail = map[*ssa.FieldAddr]ssa.Value{}
				}
			case *ssa.MapUpdate, *ssa.Lookup, *ssa.Next, *ssa.Range:
			default:
				if !oaInert(ins) {
					avail = map[*ssa.FieldAddr]ssa.Value{}
				}
			}
		}
	}
}

// defNode returns the node holding leaf i of definition d.
func (a *oa) defNode(f *oaFunc, p *oaPriv, d, i int) (oaNodeID, bool) {
	df := p.defs[d]
	if df.call {
		o := p.scratch[df.ins]
		if o == nil {
			return 0, false // the call turned out to be a hard escape: R holds the content
		}
		return o.start + oaNodeID(i), true
	}
	if df.ins == nil {
		return 0, false
	}
	return a.opnd(f, df.ins, df.val) + oaNodeID(i-df.lo), true
}

// readLeaf makes dst include the content of leaf i in state st.
func (a *oa) readLeaf(f *oaFunc, p *oaPriv, dst oaNodeID, i int, st oaLeafState) {
	if st.st == oaPublic {
		a.addCopy(dst, p.obj.start+oaNodeID(i))
		return
	}
	for d := 1; d < len(p.defs); d++ {
		if st.rd&(1<<uint(d)) != 0 {
			if n, ok := a.defNode(f, p, d, i); ok {
				a.addCopy(dst, n)
			} else if p.defs[d].call {
				a.addCopy(dst, p.obj.start+oaNodeID(i))
			}
		}
	}
}

// finishPrivate writes the definitions that reach a public state to R.
func (a *oa) finishPrivate(f *oaFunc) {
	for _, p := range f.priv {
		for k := range p.mat {
			if n, ok := a.defNode(f, p, k[1], k[0]); ok {
				a.addCopy(p.obj.start+oaNodeID(k[0]), n)
			}
		}
	}
}

// validateScratch returns the calls whose callee kept a pointer into the
// scratch object it was given.
func (a *oa) validateScratch() []ssa.Instruction {
	bad := map[ssa.Instruction]bool{}
	for i := range a.nodes {
		nd := &a.nodes[i]
		for e := range nd.pts {
			o := a.nodes[e].obj
			if o == nil || o.scratchF == nil {
				continue
			}
			ok := false
			switch nd.kind {
			case nkUse, nkTmp:
				ok = true
			case nkReg, nkParam:
				ok = nd.fn != nil && nd.fn.fn != o.scratchF.fn
			}
			if !ok && !a.retaining[o.scratchCall] {
				bad[o.scratchCall] = true
			}
		}
	}
	var out []ssa.Instruction
	for c := range bad {
		out = append(out, c)
	}
	return out
}

// ---------------------------------------------------------------- constraint generation

func (a *oa) gen(f *oaFunc) {
	if f.generated {
		return
	}
	f.generated = true
	fn := f.fn
	if fn.Blocks == nil {
		return
	}
	live := oaLiveBlocks(fn)
	f.names = map[ssa.Value]string{}
	for _, b := range fn.Blocks {
		for _, ins := range b.Instrs {
			if d, ok := ins.(*ssa.DebugRef); ok {
				if id, ok := d.Expr.(*ast.Ident); ok {
					if _, seen := f.names[d.X]; !seen {
						f.names[d.X] = id.Name
					}
				}
			}
		}
	}
	a.planPrivate(f, live)
	a.planForward(f, live)
	for _, b := range fn.Blocks {
		if !live[b.Index] {
			continue
		}
		for _, ins := range b.Instrs {
			a.genInstr(f, ins, live)
		}
	}
	a.finishPrivate(f)
}

func (a *oa) posOf(ins ssa.Instruction) token.Pos {
	if p := ins.Pos(); p.IsValid() {
		return p
	}
	if b := ins.Block(); b != nil {
		idx := oaInstrIndex(b, ins)
		for i := idx - 1; i >= 0; i-- {
			if _, ok := b.Instrs[i].(*ssa.DebugRef); ok {
				continue
			}
			if p := b.Instrs[i].Pos(); p.IsValid() {
				return p
			}
		}
		for i := idx + 1; i < len(b.Instrs); i++ {
			if p := b.Instrs[i].Pos(); p.IsValid() {
				return p
			}
		}
	}
	return ins.Parent().Pos()
}

func (a *oa) shortPos(p token.Pos) string {
	if !p.IsValid() {
		return "?"
	}
	ps := a.prog.Fset.Position(p)
	fn := ps.Filename
	if i := strings.Index(fn, "/util/"); i >= 0 {
		fn = fn[i+1:]
	}
	return fmt.Sprintf("%s:%d", fn, ps.Line)
}

func (a *oa) site(f *oaFunc, ins ssa.Instruction, kind, what string, s *oaSite) {
	if f.init {
		return
	}
	s.f, s.ins, s.kind, s.what = f, ins, kind, what
	a.sites = append(a.sites, s)
}

func (a *oa) genInstr(f *oaFunc, ins ssa.Instruction, live []bool) {
	region := a.regionFor(f.init)
	fname := FuncName(f.fn)
	switch ins := ins.(type) {
	case *ssa.DebugRef, *ssa.If, *ssa.Jump, *ssa.RunDefers, *ssa.BinOp:
	case *ssa.Alloc:
		if p := f.priv[ins]; p != nil {
			a.addr(a.val(f, ins), p.obj)
			return
		}
		name := ins.Comment
		if name == "" {
			name = ins.Name()
		}
		kind := "local variable "
		if ins.Heap {
			kind = "variable or new object "
		}
		o := a.newObj(ins.Type().(*types.Pointer).Elem(), region, kind+name+" in "+fname+" ("+a.shortPos(a.posOf(ins))+")", ins.Pos())
		a.addr(a.val(f, ins), o)
	case *ssa.MakeSlice:
		el := ins.Type().Underlying().(*types.Slice).Elem()
		o := a.newArray(el, region, "array made in "+fname+" ("+a.shortPos(a.posOf(ins))+")", ins.Pos())
		a.addr(a.val(f, ins), o)
	case *ssa.MakeMap:
		mt := ins.Type().Underlying().(*types.Map)
		o := a.newObjN(1+a.sizeof(mt.Key())+a.sizeof(mt.Elem()), mt, region, "map made in "+fname+" ("+a.shortPos(a.posOf(ins))+")", ins.Pos())
		a.addr(a.val(f, ins), o)
	case *ssa.MakeChan:
		ct := ins.Type().Underlying().(*types.Chan)
		o := a.newObjN(1+a.sizeof(ct.Elem()), ct, region, "channel made in "+fname, ins.Pos())
		a.addr(a.val(f, ins), o)
	case *ssa.MakeInterface:
		t := ins.X.Type()
		o := a.newBox(t, region, "interface box of "+types.TypeString(t, oaQual)+" in "+fname+" ("+a.shortPos(a.posOf(ins))+")", ins.Pos())
		a.copyBlock(o.start+1, a.opnd(f, ins, ins.X), a.sizeof(t))
		a.addr(a.val(f, ins), o)
	case *ssa.MakeClosure:
		cf := a.inst(f.init, ins.Fn.(*ssa.Function))
		for i, b := range ins.Bindings {
			a.copyBlock(cf.fvs+oaNodeID(cf.fvOff[i]), a.opnd(f, ins, b), a.sizeof(b.Type()))
		}
		a.addr(a.val(f, ins), cf.obj)
		a.gen(cf)
	case *ssa.FieldAddr:
		st := ins.X.Type().Underlying().(*types.Pointer).Elem()
		a.offset(a.val(f, ins), a.opnd(f, ins, ins.X), a.layout(st).off[ins.Field])
	case *ssa.Field:
		l := a.layout(ins.X.Type())
		a.copyBlock(a.val(f, ins), a.opnd(f, ins, ins.X)+oaNodeID(l.off[ins.Field]), a.sizeof(ins.Type()))
	case *ssa.IndexAddr:
		a.offset(a.val(f, ins), a.opnd(f, ins, ins.X), 1)
	case *ssa.Index:
		if _, ok := ins.X.Type().Underlying().(*types.Array); ok {
			a.copyBlock(a.val(f, ins), a.opnd(f, ins, ins.X)+1, a.sizeof(ins.Type()))
		}
	case *ssa.Slice:
		switch ins.X.Type().Underlying().(type) {
		case *types.Basic:
		default:
			a.addCopy(a.val(f, ins), a.opnd(f, ins, ins.X))
		}
	case *ssa.Lookup:
		if mt, ok := ins.X.Type().Underlying().(*types.Map); ok {
			a.load(a.val(f, ins), a.opnd(f, ins, ins.X), 1+a.sizeof(mt.Key()), a.sizeof(mt.Elem()))
		}
	case *ssa.MapUpdate:
		mt := ins.Map.Type().Underlying().(*types.Map)
		m := a.opnd(f, ins, ins.Map)
		a.store(m, a.opnd(f, ins, ins.Key), 1, a.sizeof(mt.Key()))
		a.store(m, a.opnd(f, ins, ins.Value), 1+a.sizeof(mt.Key()), a.sizeof(mt.Elem()))
		a.site(f, ins, "mapupdate", "map", &oaSite{ptr: []oaNodeID{m}})
	case *ssa.Store:
		p := a.opnd(f, ins, ins.Addr)
		if accs := f.access[ins]; len(accs) > 0 {
			// direct store to a tracked local: only public leaves live in R
			acc, src := accs[0], a.opnd(f, ins, ins.Val)
			for k := 0; k < acc.sub.size; k++ {
				if acc.state[k].st == oaPublic {
					a.addCopy(acc.p.obj.start+oaNodeID(acc.sub.off+k), src+oaNodeID(k))
				}
			}
		} else {
			a.store(p, a.opnd(f, ins, ins.Val), 0, a.sizeof(ins.Val.Type()))
		}
		a.site(f, ins, "store", "memory cell", &oaSite{ptr: []oaNodeID{p}})
	case *ssa.UnOp:
		switch ins.Op {
		case token.MUL:
			if accs := f.access[ins]; len(accs) > 0 {
				acc, dst := accs[0], a.val(f, ins)
				for k := 0; k < acc.sub.size; k++ {
					a.readLeaf(f, acc.p, dst+oaNodeID(k), acc.sub.off+k, acc.state[k])
				}
				return
			}
			if v, ok := f.forward[ins]; ok {
				a.copyBlock(a.val(f, ins), a.opnd(f, ins, v), a.sizeof(ins.Type()))
				return
			}
			a.load(a.val(f, ins), a.opnd(f, ins, ins.X), 0, a.sizeof(ins.Type()))
		case token.ARROW:
			ct := ins.X.Type().Underlying().(*types.Chan)
			a.load(a.val(f, ins), a.opnd(f, ins, ins.X), 1, a.sizeof(ct.Elem()))
		}
	case *ssa.Phi:
		for i, e := range ins.Edges {
			if oaPredLive(live, ins.Block(), i) {
				a.copyBlock(a.val(f, ins), a.opnd(f, ins, e), a.sizeof(ins.Type()))
			}
		}
	case *ssa.ChangeType:
		a.copyBlock(a.val(f, ins), a.opnd(f, ins, ins.X), a.sizeof(ins.Type()))
	case *ssa.ChangeInterface:
		a.copyBlock(a.val(f, ins), a.opnd(f, ins, ins.X), 1)
	case *ssa.SliceToArrayPointer:
		a.addCopy(a.val(f, ins), a.opnd(f, ins, ins.X))
	case *ssa.Convert:
		a.genConvert(f, ins, ins.X, ins.Type())
	case *ssa.MultiConvert:
		a.genConvert(f, ins, ins.X, ins.Type())
	case *ssa.Extract:
		l := a.layout(ins.Tuple.Type())
		a.copyBlock(a.val(f, ins), a.opnd(f, ins, ins.Tuple)+oaNodeID(l.off[ins.Index]), a.sizeof(ins.Type()))
	case *ssa.TypeAssert:
		a.addCons(a.opnd(f, ins, ins.X), &oaTypeAssert{dst: a.val(f, ins), src: a.opnd(f, ins, ins.X), t: ins.AssertedType})
	case *ssa.Range:
		if _, ok := ins.X.Type().Underlying().(*types.Map); ok {
			a.addCopy(a.val(f, ins), a.opnd(f, ins, ins.X))
		}
	case *ssa.Next:
		if ins.IsString {
			return
		}
		rg, ok := ins.Iter.(*ssa.Range)
		if !ok {
			a.anomaly("Next over a non-Range iterator in %s", fname)
			return
		}
		mt := rg.X.Type().Underlying().(*types.Map)
		tl := a.layout(ins.Type())
		tup := ins.Type().(*types.Tuple)
		it := a.opnd(f, ins, ins.Iter)
		if b, ok := tup.At(1).Type().(*types.Basic); !ok || b.Kind() != types.Invalid {
			a.load(a.val(f, ins)+oaNodeID(tl.off[1]), it, 1, a.sizeof(mt.Key()))
		}
		if b, ok := tup.At(2).Type().(*types.Basic); !ok || b.Kind() != types.Invalid {
			a.load(a.val(f, ins)+oaNodeID(tl.off[2]), it, 1+a.sizeof(mt.Key()), a.sizeof(mt.Elem()))
		}
	case *ssa.Send:
		ct := ins.Chan.Type().Underlying().(*types.Chan)
		c := a.opnd(f, ins, ins.Chan)
		a.store(c, a.opnd(f, ins, ins.X), 1, a.sizeof(ct.Elem()))
		a.site(f, ins, "send", "channel", &oaSite{ptr: []oaNodeID{c}})
	case *ssa.Select:
		a.site(f, ins, "select", "", &oaSite{fail: "select statement is not modelled"})
	case *ssa.Return:
		l := a.layout(f.fn.Signature.Results())
		for i, r := range ins.Results {
			a.copyBlock(f.results+oaNodeID(l.off[i]), a.opnd(f, ins, r), a.sizeof(r.Type()))
		}
	case *ssa.Panic:
		a.addCopy(a.panicNode, a.opnd(f, ins, ins.X))
	case *ssa.Go:
		a.site(f, ins, "go", "", &oaSite{fail: "go statement: concurrency inside the call is not modelled"})
		a.genCall(f, ins)
	case *ssa.Defer:
		a.genCall(f, ins)
	case *ssa.Call:
		// soft escapes: the callee sees a scratch copy of the private leaves
		for _, acc := range f.access[ins] {
			o := acc.p.scratch[ins]
			for k := 0; k < acc.sub.size; k++ {
				a.readLeaf(f, acc.p, o.start+oaNodeID(acc.sub.off+k), acc.sub.off+k, acc.state[k])
			}
		}
		for _, arg := range ins.Call.Args {
			if pp := f.derivedOf[arg]; pp != nil && pp.scratch[ins] != nil {
				if _, done := f.uses[oaUseKey{ins, arg}]; !done {
					sub := pp.derived[arg]
					n := a.newNodes(1, a.valName(f, pp.al)+" in "+fname, f, nkUse)
					a.addPts(n, pp.scratch[ins].start+oaNodeID(sub.off), oaProv{-1, 0})
					a.addPts(n, pp.obj.start+oaNodeID(sub.off), oaProv{-1, 0})
					f.uses[oaUseKey{ins, arg}] = n
				}
			}
		}
		a.genCall(f, ins)
	default:
		a.anomaly("unsupported instruction %T in %s", ins, fname)
		a.site(f, ins, "unsupported", "", &oaSite{fail: fmt.Sprintf("unsupported instruction %T", ins)})
	}
}

func oaQual(p *types.Package) string { return p.Name() }

func (a *oa) genConvert(f *oaFunc, ins ssa.Instruction, x ssa.Value, t types.Type) {
	v := ins.(ssa.Value)
	_, toSlice := t.Underlying().(*types.Slice)
	_, fromSlice := x.Type().Underlying().(*types.Slice)
	switch {
	case toSlice && !fromSlice: // []byte(s), []rune(s)
		el := t.Underlying().(*types.Slice).Elem()
		o := a.newArray(el, a.regionFor(f.init), "array allocated by a conversion in "+FuncName(f.fn), a.posOf(ins))
		a.addr(a.val(f, v), o)
	case oaPointerLike(t) && oaPointerLike(x.Type()):
		a.addCopy(a.val(f, v), a.opnd(f, ins, x))
		if b, ok := t.Underlying().(*types.Basic); ok && b.Kind() == types.UnsafePointer {
			a.site(f, ins, "unsafe", "", &oaSite{fail: "conversion to unsafe.Pointer is not modelled"})
		}
		if b, ok := x.Type().Underlying().(*types.Basic); ok && b.Kind() == types.UnsafePointer {
			a.site(f, ins, "unsafe", "", &oaSite{fail: "conversion from unsafe.Pointer is not modelled"})
		}
	}
}

type oaTypeAssert struct {
	dst, src oaNodeID
	t        types.Type
}

func (c *oaTypeAssert) onAddr(a *oa, e oaNodeID) {
	o := a.nodes[e].obj
	if o == nil {
		return
	}
	_, isIface := c.t.Underlying().(*types.Interface)
	switch {
	case o.opaque:
		if isIface {
			a.addPts(c.dst, o.start, oaProv{c.src, e})
		} else if !o.lib { // a library dynamic type never equals a deps.dev concrete type
			a.fillOpaque(c.dst, a.sizeof(c.t), o)
		}
	case o.tagged:
		if isIface {
			if types.AssignableTo(o.typ, c.t) {
				a.addPts(c.dst, o.start, oaProv{c.src, e})
			}
		} else if types.Identical(o.typ, c.t) {
			a.copyBlock(c.dst, o.start+1, a.sizeof(c.t))
		}
	}
}

// ---------------------------------------------------------------- calls

func oaIsClientIface(t types.Type) bool {
	n, ok := types.Unalias(t).(*types.Named)
	if !ok || n.Obj().Pkg() == nil {
		return false
	}
	if _, ok := n.Underlying().(*types.Interface); !ok {
		return false
	}
	return n.Obj().Name() == "Client" && n.Obj().Pkg().Path() == "deps.dev/util/resolve"
}

func (a *oa) genCall(f *oaFunc, ins ssa.CallInstruction) {
	c := ins.Common()
	var res oaNodeID = -1
	var resT types.Type = c.Signature().Results()
	if v := ins.Value(); v != nil {
		res = a.val(f, v)
		resT = v.Type()
	} else {
		res = a.tmp(a.sizeof(resT), "")
	}
	var args []oaArg
	for _, x := range c.Args {
		args = append(args, oaArg{a.opnd(f, ins, x), x.Type()})
	}
	if c.IsInvoke() {
		recv := a.opnd(f, ins, c.Value)
		if oaIsClientIface(c.Value.Type()) {
			a.clientCall(f, ins, c.Method.Name(), res, resT)
			return
		}
		a.addCons(recv, &oaInvoke{f: f, ins: ins, name: c.Method.Name(), pkg: c.Method.Pkg(), iface: c.Value.Type(), args: args, res: res, resT: resT, recv: recv})
		return
	}
	switch fv := c.Value.(type) {
	case *ssa.Builtin:
		a.builtin(f, ins, fv, args, res, resT)
	case *ssa.Function:
		a.callFn(f, ins, fv, args, res, resT)
	case *ssa.MakeClosure:
		a.callFn(f, ins, fv.Fn.(*ssa.Function), args, res, resT)
	default:
		a.addCons(a.opnd(f, ins, fv), &oaDynCall{f: f, ins: ins, args: args, res: res, resT: resT})
	}
}

func (a *oa) callFn(f *oaFunc, ins ssa.Instruction, fn *ssa.Function, args []oaArg, res oaNodeID, resT types.Type) {
	switch {
	case a.isLRU(fn):
		a.lruCall(f, ins, fn, args, res, resT)
	case a.analysable(fn):
		a.bind(f, fn, args, res)
	default:
		a.extern(&oaExt{a: a, f: f, ins: ins, fn: fn, name: oaExtName(fn), args: args, res: res, resT: resT})
	}
}

func (a *oa) bind(f *oaFunc, fn *ssa.Function, args []oaArg, res oaNodeID) *oaFunc {
	ci := a.inst(f.init, fn)
	if len(args) != len(fn.Params) {
		a.anomaly("call of %s with %d arguments for %d parameters", FuncName(fn), len(args), len(fn.Params))
	}
	for i, p := range fn.Params {
		if i >= len(args) {
			break
		}
		sz := a.sizeof(p.Type())
		if as := a.sizeof(args[i].t); as != sz {
			a.anomaly("argument %d of %s: layout size %d for parameter size %d", i, FuncName(fn), as, sz)
			if as < sz {
				sz = as
			}
		}
		a.copyBlock(ci.params+oaNodeID(ci.paramOff[i]), args[i].n, sz)
	}
	if res >= 0 {
		a.copyBlock(res, ci.results, ci.resSize)
	}
	a.gen(ci)
	return ci
}

type oaDynCall struct {
	f    *oaFunc
	ins  ssa.Instruction
	args []oaArg
	res  oaNodeID
	resT types.Type
	fail bool
}

func (c *oaDynCall) onAddr(a *oa, e oaNodeID) {
	o := a.nodes[e].obj
	if o == nil {
		return
	}
	if o.fn != nil {
		fn := o.fn.fn
		if !a.isLRU(fn) && a.analysable(fn) {
			ci := a.bind(c.f, fn, c.args, c.res)
			if ci != o.fn {
				a.copyBlock(ci.fvs, o.fn.fvs, ci.fvSize)
			}
		} else {
			a.callFn(c.f, c.ins, fn, c.args, c.res, c.resT)
		}
		return
	}
	if o.opaque {
		a.fillOpaque(c.res, a.sizeof(c.resT), o)
		if !c.fail {
			c.fail = true
			a.site(c.f, c.ins, "dyncall", "", &oaSite{fail: "call of a function value of unknown origin (" + o.desc + ")"})
		}
	}
}

var oaTrustedIfaces = map[string]bool{"error": true, "context.Context": true, "fmt.Stringer": true}

type oaInvoke struct {
	f     *oaFunc
	ins   ssa.Instruction
	name  string
	pkg   *types.Package
	iface types.Type
	args  []oaArg
	res   oaNodeID
	resT  types.Type
	recv  oaNodeID
	cha   map[string]oaNodeID
	fail  bool
}

func (a *oa) lookupMethod(t types.Type, pkg *types.Package, name string) *ssa.Function {
	sel := a.prog.SSA.MethodSets.MethodSet(t).Lookup(pkg, name)
	if sel == nil {
		return nil
	}
	return a.prog.SSA.MethodValue(sel)
}

func (c *oaInvoke) onAddr(a *oa, e oaNodeID) {
	o := a.nodes[e].obj
	if o == nil {
		return
	}
	switch {
	case o.tagged:
		fn := a.lookupMethod(o.typ, c.pkg, c.name)
		if fn == nil {
			a.anomaly("no method %s on dynamic type %s", c.name, o.typ)
			return
		}
		args := append([]oaArg{{o.start + 1, o.typ}}, c.args...)
		a.callFn(c.f, c.ins, fn, args, c.res, c.resT)
	case o.opaque && o.lib:
		// value of a library type (error made by fmt.Errorf / errors.New): its
		// methods are library code without effects on the analysed regions
		a.fillOpaque(c.res, a.sizeof(c.resT), o)
	case o.opaque:
		// Unknown dynamic type: class-hierarchy analysis over deps.dev types.
		if c.cha == nil {
			c.cha = map[string]oaNodeID{}
		}
		for _, t := range a.implementers(c.iface) {
			key := types.TypeString(t, nil)
			blk, ok := c.cha[key]
			if !ok {
				fn := a.lookupMethod(t, c.pkg, c.name)
				if fn == nil {
					continue
				}
				blk = a.tmp(a.sizeof(t), "receiver of unknown dynamic type")
				c.cha[key] = blk
				args := append([]oaArg{{blk, t}}, c.args...)
				a.callFn(c.f, c.ins, fn, args, c.res, c.resT)
			}
			a.fillOpaque(blk, a.sizeof(t), o)
		}
		a.fillOpaque(c.res, a.sizeof(c.resT), o)
		in := types.TypeString(c.iface, nil)
		declaredHere := false
		if n, ok := types.Unalias(c.iface).(*types.Named); ok && n.Obj().Pkg() != nil && oaOurs(n.Obj().Pkg().Path()) {
			declaredHere = true
		}
		if !declaredHere && !oaTrustedIfaces[in] && !c.fail {
			c.fail = true
			a.site(c.f, c.ins, "invoke", "", &oaSite{fail: "method call on a value of unknown dynamic type (" + o.desc + ") through interface " + in})
		}
	}
}

// implementers lists the deps.dev types (T or *T) implementing the interface.
func (a *oa) implementers(iface types.Type) []types.Type {
	key := types.TypeString(iface, nil)
	if l, ok := a.impls[key]; ok {
		return l
	}
	it, _ := iface.Underlying().(*types.Interface)
	var out []types.Type
	if it != nil {
		var paths []string
		for p := range a.prog.Pkgs {
			if oaOurs(p) {
				paths = append(paths, p)
			}
		}
		sort.Strings(paths)
		for _, p := range paths {
			pkg := a.prog.Pkgs[p]
			var names []string
			for n := range pkg.Members {
				names = append(names, n)
			}
			sort.Strings(names)
			for _, n := range names {
				tm, ok := pkg.Members[n].(*ssa.Type)
				if !ok {
					continue
				}
				nt, ok := tm.Type().(*types.Named)
				if !ok || nt.TypeParams().Len() > 0 {
					continue
				}
				if _, isI := nt.Underlying().(*types.Interface); isI {
					continue
				}
				if types.Implements(nt, it) {
					out = append(out, nt)
				} else if pt := types.NewPointer(nt); types.Implements(pt, it) {
					out = append(out, pt)
				}
			}
		}
	}
	a.impls[key] = out
	return out
}

// clientCall models a method call on a resolve.Client value: the results are
// client-owned memory (one opaque object per call site).
func (a *oa) clientCall(f *oaFunc, ins ssa.Instruction, method string, res oaNodeID, resT types.Type) {
	pos := a.posOf(ins)
	l := a.layout(resT)
	region := oaClient
	if f.init {
		region = oaGlobal
	}
	tup, _ := resT.(*types.Tuple)
	if tup == nil || tup.Len() != 2 {
		o := a.newOpaque(region, "memory reachable from the value returned by client."+method+" ("+a.shortPos(pos)+")", pos)
		a.fillOpaque(res, l.size, o)
		return
	}
	what := "value"
	switch tup.At(0).Type().Underlying().(type) {
	case *types.Slice:
		what = "slice"
	}
	o := a.newOpaque(region, "memory reachable from the "+what+" returned by client."+method+" ("+a.shortPos(pos)+"): backing array, elements and the attribute maps inside them", pos)
	a.fillOpaque(res, l.off[1], o)
	oe := a.newOpaque(region, "error returned by client."+method+" ("+a.shortPos(pos)+")", pos)
	a.fillOpaque(res+oaNodeID(l.off[1]), 1, oe)
}

// lruCall models (*lru.Cache).Get/Add as memo effects on resolver-owned state.
func (a *oa) lruCall(f *oaFunc, ins ssa.Instruction, fn *ssa.Function, args []oaArg, res oaNodeID, resT types.Type) {
	name := fn.Name()
	if i := strings.Index(name, "["); i >= 0 {
		name = name[:i] // instantiated generic method: Get[K,V]
	}
	cacheT := types.TypeString(args[0].t, oaQual)
	contents := func(vt types.Type) oaNodeID {
		key := cacheT
		if n, ok := a.memo[key]; ok {
			return n
		}
		n := a.newNodes(a.sizeof(vt), "contents of "+cacheT, nil, nkPersist)
		o := a.newOpaque(oaMemo, "value held by the resolver's "+cacheT+" (shared between Resolve calls)", fn.Pos())
		a.fillOpaque(n, a.sizeof(vt), o)
		a.memo[key] = n
		return n
	}
	switch name {
	case "Get":
		if tup, ok := resT.(*types.Tuple); ok && tup.Len() == 2 {
			vt := tup.At(0).Type()
			a.copyBlock(res, contents(vt), a.sizeof(vt))
		}
	case "Add":
		if len(args) == 3 {
			a.copyBlock(contents(args[2].t), args[2].n, a.sizeof(args[2].t))
		}
	default:
		a.site(f, ins, "memo", "", &oaSite{fail: "unmodelled method of the LRU cache: " + name})
		return
	}
	// the receiver is recorded: the memo allowance only covers a cache owned by the resolver object
	a.site(f, ins, "memo", "(*lru.Cache)."+name, &oaSite{memo: true, ptr: []oaNodeID{args[0].n}})
}

// ---------------------------------------------------------------- builtins

func (a *oa) builtin(f *oaFunc, ins ssa.Instruction, b *ssa.Builtin, args []oaArg, res oaNodeID, resT types.Type) {
	fname := FuncName(f.fn)
	switch b.Name() {
	case "append":
		st, ok := resT.Underlying().(*types.Slice)
		if !ok {
			a.anomaly("append with non-slice result in %s", fname)
			return
		}
		sz := a.sizeof(st.Elem())
		o := a.newArray(st.Elem(), a.regionFor(f.init), "array grown by append in "+fname+" ("+a.shortPos(a.posOf(ins))+")", a.posOf(ins))
		a.addCopy(res, args[0].n)
		a.addr(res, o)
		t1 := a.tmp(sz, "")
		a.load(t1, args[0].n, 1, sz)
		a.copyBlock(o.start+1, t1, sz)
		if len(args) > 1 {
			if _, ok := args[1].t.Underlying().(*types.Slice); ok {
				t2 := a.tmp(sz, "")
				a.load(t2, args[1].n, 1, sz)
				a.copyBlock(o.start+1, t2, sz)
				a.store(args[0].n, t2, 1, sz)
			}
		}
		a.site(f, ins, "append", "backing array (append may write in place into spare capacity)", &oaSite{ptr: []oaNodeID{args[0].n}})
	case "copy":
		if st, ok := args[0].t.Underlying().(*types.Slice); ok {
			sz := a.sizeof(st.Elem())
			if _, ok := args[1].t.Underlying().(*types.Slice); ok {
				t := a.tmp(sz, "")
				a.load(t, args[1].n, 1, sz)
				a.store(args[0].n, t, 1, sz)
			}
		}
		a.site(f, ins, "copy", "backing array (destination of copy)", &oaSite{ptr: []oaNodeID{args[0].n}})
	case "delete":
		a.site(f, ins, "delete", "map", &oaSite{ptr: []oaNodeID{args[0].n}})
	case "clear":
		a.site(f, ins, "clear", "map or backing array", &oaSite{ptr: []oaNodeID{args[0].n}})
	case "close":
		a.site(f, ins, "close", "channel", &oaSite{ptr: []oaNodeID{args[0].n}})
	case "len", "cap", "min", "max", "print", "println", "real", "imag", "complex":
	case "panic":
		a.addCopy(a.panicNode, args[0].n)
	case "recover":
		a.addCopy(res, a.panicNode)
	case "ssa:wrapnilchk":
		a.copyBlock(res, args[0].n, a.sizeof(args[0].t))
	default:
		a.site(f, ins, "builtin", "", &oaSite{fail: "builtin " + b.Name() + " is not modelled"})
	}
}

// ---------------------------------------------------------------- library model
//
// Calls that leave deps.dev/ are not descended into. The table says, per
// function, what the call may write and what it returns:
//
//   write its slice argument in place (obligation at the call site):
//     sort.Slice, sort.SliceStable (argument boxed in an interface),
//     sort.Strings, sort.Ints, sort.Float64s, slices.Sort, slices.SortFunc,
//     slices.SortStableFunc, slices.Reverse, slices.Compact(Func),
//     slices.Delete(Func), slices.Insert (also may return a fresh array)
//   write only through Swap of the concrete sort.Interface (analysed as code):
//     sort.Sort, sort.Stable
//   write only their receiver: (*strings.Builder).Write*, Grow, Reset;
//     (*bytes.Buffer).Write* likewise
//   fresh result, no writes: slices.Clone, strings.Split/Fields/..., fmt.Sprint*,
//     fmt.Errorf (result keeps references to its arguments), errors.New
//   read-only with callbacks (callback gets the slice elements):
//     slices.ContainsFunc, slices.IndexFunc, sort.Search, strings.FieldsFunc, ...
//   errors.As writes *target (a copy of a matching error in the chain)
//   fmt.* additionally call String/Error/GoString/Format methods of deps.dev
//     types found in the (dynamic) types of their operands: those methods are
//     analysed like any other code
//   pure packages (no writes to arguments, results fresh or scalar): strings,
//     strconv, unicode, unicode/utf8, errors, math, math/bits, cmp, time,
//     context, bytes, reflect.DeepEqual, net/url.Parse; exceptions: strconv.Append*,
//     utf8.EncodeRune/AppendRune write their first argument, and any
//     pointer-receiver method in these packages may write its receiver
//   fmt.Fprint*: additionally w.Write(p) on the dynamic type of the writer;
//     fmt.Print* write to standard output and are reported as failed
//   anything else: obligation "failed" with Detail "unmodelled call".

type oaExt struct {
	a    *oa
	f    *oaFunc
	ins  ssa.Instruction
	fn   *ssa.Function
	name string
	args []oaArg
	res  oaNodeID
	resT types.Type
}

// freshResult makes the pointer leaves of the result point to fresh memory.
func (x *oaExt) freshResult() {
	a := x.a
	if x.res < 0 || !a.hasPointers(x.resT) {
		return
	}
	o := a.newOpaque(a.regionFor(x.f.init), "memory allocated by "+x.name+" ("+a.shortPos(a.posOf(x.ins))+")", a.posOf(x.ins))
	for i, l := range a.layout(x.resT).leaves {
		if oaPointerLike(l) {
			a.addCopy(x.res+oaNodeID(i), o.start)
		}
	}
}

func (x *oaExt) libraryResult() {
	a := x.a
	if x.res < 0 || !a.hasPointers(x.resT) {
		return
	}
	o := a.newOpaque(oaUnknown, "library-owned memory returned by "+x.name, a.posOf(x.ins))
	for i, l := range a.layout(x.resT).leaves {
		if oaPointerLike(l) {
			a.addCopy(x.res+oaNodeID(i), o.start)
		}
	}
}

// callbacks calls every function-typed argument; a callback parameter whose
// type is the element type of a slice argument receives those elements.
func (x *oaExt) callbacks() {
	a := x.a
	for _, cb := range x.args {
		sig, ok := cb.t.Underlying().(*types.Signature)
		if !ok {
			continue
		}
		var cargs []oaArg
		for j := 0; j < sig.Params().Len(); j++ {
			pt := sig.Params().At(j).Type()
			blk := a.tmp(a.sizeof(pt), "callback argument")
			fed := !a.hasPointers(pt)
			for _, s := range x.args {
				if st, ok := s.t.Underlying().(*types.Slice); ok && types.Identical(st.Elem(), pt) {
					a.load(blk, s.n, 1, a.sizeof(pt))
					fed = true
				}
			}
			if !fed {
				o := a.newOpaque(oaUnknown, "callback argument supplied by "+x.name, a.posOf(x.ins))
				a.fillOpaque(blk, a.sizeof(pt), o)
				a.anomaly("callback argument of %s could not be modelled", x.name)
			}
			cargs = append(cargs, oaArg{blk, pt})
		}
		a.addCons(cb.n, &oaDynCall{f: x.f, ins: x.ins, args: cargs, res: a.tmp(a.sizeof(sig.Results()), ""), resT: sig.Results()})
	}
}

func (x *oaExt) writeArg(i int, what string) {
	x.a.site(x.f, x.ins, "call:"+x.name, what, &oaSite{ptr: []oaNodeID{x.args[i].n}})
}

var oaPurePkgs = map[string]bool{"strings": true, "strconv": true, "unicode": true, "unicode/utf8": true, "errors": true,
	"math": true, "math/bits": true, "cmp": true, "time": true, "context": true, "bytes": true}

func (a *oa) extern(x *oaExt) {
	name := x.name
	pkg := oaPkgPath(x.fn)
	switch name {
	case "sort.Slice", "sort.SliceStable":
		a.site(x.f, x.ins, "call:"+name, "backing array (sorted in place)", &oaSite{boxed: []oaNodeID{x.args[0].n}})
		x.callbacks()
		return
	case "sort.Strings", "sort.Ints", "sort.Float64s", "slices.Sort", "slices.SortFunc", "slices.SortStableFunc", "slices.Reverse":
		x.writeArg(0, "backing array (reordered in place)")
		x.callbacks()
		return
	case "slices.Compact", "slices.CompactFunc", "slices.Delete", "slices.DeleteFunc", "slices.Insert", "slices.Replace", "slices.Grow", "slices.Clip":
		if name != "slices.Grow" && name != "slices.Clip" {
			x.writeArg(0, "backing array (modified in place)")
		}
		a.addCopy(x.res, x.args[0].n)
		if name == "slices.Insert" || name == "slices.Replace" || name == "slices.Grow" {
			st := x.resT.Underlying().(*types.Slice)
			sz := a.sizeof(st.Elem())
			o := a.newArray(st.Elem(), a.regionFor(x.f.init), "array allocated by "+name, a.posOf(x.ins))
			a.addr(x.res, o)
			for _, s := range x.args {
				if as, ok := s.t.Underlying().(*types.Slice); ok && types.Identical(as.Elem(), st.Elem()) {
					t := a.tmp(sz, "")
					a.load(t, s.n, 1, sz)
					a.copyBlock(o.start+1, t, sz)
					a.store(x.args[0].n, t, 1, sz)
				}
			}
		}
		x.callbacks()
		return
	case "slices.Clone":
		if st, ok := x.resT.Underlying().(*types.Slice); ok {
			sz := a.sizeof(st.Elem())
			o := a.newArray(st.Elem(), a.regionFor(x.f.init), "array allocated by slices.Clone in "+FuncName(x.f.fn)+" ("+a.shortPos(a.posOf(x.ins))+")", a.posOf(x.ins))
			a.addr(x.res, o)
			t := a.tmp(sz, "")
			a.load(t, x.args[0].n, 1, sz)
			a.copyBlock(o.start+1, t, sz)
		}
		return
	case "slices.Contains", "slices.Index", "slices.Equal", "slices.ContainsFunc", "slices.IndexFunc", "slices.BinarySearch",
		"slices.BinarySearchFunc", "slices.EqualFunc", "slices.IsSorted", "slices.IsSortedFunc", "sort.Search", "sort.SearchStrings", "sort.SearchInts",
		"slices.Max", "slices.Min", "slices.MaxFunc", "slices.MinFunc":
		if a.hasPointers(x.resT) && len(x.args) > 0 {
			if st, ok := x.args[0].t.Underlying().(*types.Slice); ok && types.Identical(st.Elem(), x.resT) {
				a.load(x.res, x.args[0].n, 1, a.sizeof(x.resT))
			}
		}
		x.callbacks()
		return
	case "sort.Sort", "sort.Stable":
		for _, m := range []string{"Len", "Less", "Swap"} {
			var margs []oaArg
			var rt types.Type = types.NewTuple()
			switch m {
			case "Len":
				rt = types.Typ[types.Int]
			case "Less":
				rt = types.Typ[types.Bool]
				margs = []oaArg{{a.tmp(1, ""), types.Typ[types.Int]}, {a.tmp(1, ""), types.Typ[types.Int]}}
			case "Swap":
				margs = []oaArg{{a.tmp(1, ""), types.Typ[types.Int]}, {a.tmp(1, ""), types.Typ[types.Int]}}
			}
			a.addCons(x.args[0].n, &oaInvoke{f: x.f, ins: x.ins, name: m, iface: x.args[0].t, args: margs, res: a.tmp(a.sizeof(rt), ""), resT: rt, recv: x.args[0].n})
		}
		a.site(x.f, x.ins, "call:"+name, "backing array (sorted in place through Swap)", &oaSite{boxed: []oaNodeID{x.args[0].n}})
		return
	case "errors.As":
		a.errorsAs(x)
		return
	case "errors.New":
		o := a.newOpaque(a.regionFor(x.f.init), "error value made by errors.New in "+FuncName(x.f.fn)+" ("+a.shortPos(a.posOf(x.ins))+")", a.posOf(x.ins))
		o.lib = true
		a.addr(x.res, o)
		return
	case "errors.Unwrap":
		t := a.tmp(1, "")
		a.load(t, x.args[0].n, 0, 1) // only opaque error values have content
		a.addCons(x.args[0].n, &oaUnwrap{res: x.res})
		return
	case "reflect.DeepEqual", "errors.Is":
		return
	case "fmt.Errorf":
		o := a.newOpaque(a.regionFor(x.f.init), "error value made by fmt.Errorf in "+FuncName(x.f.fn)+" ("+a.shortPos(a.posOf(x.ins))+")", a.posOf(x.ins))
		o.lib = true
		a.addr(x.res, o)
		t := a.tmp(1, "")
		a.load(t, x.args[len(x.args)-1].n, 1, 1)
		a.addCopy(o.start, t)
		a.fmtOperands(x)
		return
	case "(*strings.Builder).WriteString", "(*strings.Builder).WriteByte", "(*strings.Builder).WriteRune", "(*strings.Builder).Write",
		"(*strings.Builder).Grow", "(*strings.Builder).Reset",
		"(*bytes.Buffer).WriteString", "(*bytes.Buffer).WriteByte", "(*bytes.Buffer).WriteRune", "(*bytes.Buffer).Write", "(*bytes.Buffer).Reset":
		x.writeArg(0, "receiver (builder state)")
		return
	case "(*strings.Builder).String", "(*strings.Builder).Len", "(*strings.Builder).Cap", "(*bytes.Buffer).String", "(*bytes.Buffer).Len", "(*bytes.Buffer).Bytes":
		x.freshResult()
		return
	case "net/url.Parse":
		x.freshResult()
		return
	}
	if pkg == "fmt" {
		switch x.fn.Name() {
		case "Sprintf", "Sprint", "Sprintln", "Printf", "Println", "Print", "Fprintf", "Fprint", "Fprintln", "Appendf", "Append", "Appendln":
			a.fmtOperands(x)
			x.freshResult()
			switch {
			case strings.HasPrefix(x.fn.Name(), "F"):
				// the only effect besides the operands' methods is w.Write(p) with a fresh p
				bt := types.NewSlice(types.Typ[types.Byte])
				buf := a.tmp(1, "")
				a.addr(buf, a.newArray(types.Typ[types.Byte], a.regionFor(x.f.init), "fmt buffer", a.posOf(x.ins)))
				rt := types.NewTuple(types.NewVar(0, nil, "", types.Typ[types.Int]), types.NewVar(0, nil, "", types.Universe.Lookup("error").Type()))
				a.addCons(x.args[0].n, &oaInvoke{f: x.f, ins: x.ins, name: "Write", iface: x.args[0].t, args: []oaArg{{buf, bt}}, res: a.tmp(a.sizeof(rt), ""), resT: rt, recv: x.args[0].n})
			case strings.HasPrefix(x.fn.Name(), "P"):
				a.site(x.f, x.ins, "call:"+name, "", &oaSite{fail: "writes to the process-wide standard output"})
			}
			return
		}
	}
	if oaPurePkgs[pkg] {
		switch {
		case strings.HasPrefix(name, "strconv.Append") || name == "unicode/utf8.EncodeRune" || name == "unicode/utf8.AppendRune":
			// these write into (the spare capacity of) their first argument
			x.writeArg(0, "backing array (written by "+name+")")
			a.addCopy(x.res, x.args[0].n)
		case x.fn.Signature.Recv() != nil && oaIsPointer(x.fn.Signature.Recv().Type()):
			// a pointer-receiver method of a library type may update its receiver
			x.writeArg(0, "receiver (library object)")
		}
		if pkg == "time" || pkg == "context" {
			x.libraryResult()
		} else {
			x.freshResult()
		}
		x.callbacks()
		return
	}
	// Unmodelled.
	if x.res >= 0 {
		o := a.newOpaque(oaUnknown, "result of the unmodelled call "+name, a.posOf(x.ins))
		a.fillOpaque(x.res, a.sizeof(x.resT), o)
	}
	a.unmodel[name] = true
	a.site(x.f, x.ins, "call:"+name, "", &oaSite{fail: "unmodelled call of " + name})
}

// errorsAs: errors.As(err, target) copies a matching error of the chain to *target.
func (a *oa) errorsAs(x *oaExt) {
	call, _ := x.ins.(ssa.CallInstruction)
	var ptr ssa.Value
	if call != nil && len(call.Common().Args) == 2 {
		if mi, ok := call.Common().Args[1].(*ssa.MakeInterface); ok {
			ptr = mi.X
		}
	}
	if ptr == nil {
		a.site(x.f, x.ins, "call:errors.As", "", &oaSite{fail: "errors.As with a target that is not &variable is not modelled"})
		return
	}
	pt, ok := ptr.Type().Underlying().(*types.Pointer)
	if !ok {
		return
	}
	pn := a.opnd(x.f, x.ins, ptr)
	a.site(x.f, x.ins, "call:errors.As", "target of errors.As", &oaSite{ptr: []oaNodeID{pn}})
	a.addCons(x.args[0].n, &oaAsCons{ptr: pn, t: pt.Elem(), seen: map[*oaObj]bool{}})
}

type oaAsCons struct {
	ptr  oaNodeID
	t    types.Type
	seen map[*oaObj]bool
}

func (c *oaAsCons) onAddr(a *oa, e oaNodeID) {
	o := a.nodes[e].obj
	if o == nil || c.seen[o] {
		return
	}
	c.seen[o] = true
	_, isIface := c.t.Underlying().(*types.Interface)
	switch {
	case o.tagged:
		if isIface {
			if types.AssignableTo(o.typ, c.t) {
				t := a.tmp(1, "")
				a.addPts(t, o.start, oaProv{-1, 0})
				a.store(c.ptr, t, 0, 1)
			}
		} else if types.Identical(o.typ, c.t) {
			a.store(c.ptr, o.start+1, 0, a.sizeof(c.t))
		}
		// a wrapped error inside a deps.dev error type is found through Unwrap, which
		// none of the analysed error types define.
	case o.opaque:
		if o.lib {
			a.addCons(o.start, c) // fmt.Errorf chain: look at the wrapped operands
		} else {
			t := a.tmp(a.sizeof(c.t), "")
			a.fillOpaque(t, a.sizeof(c.t), o)
			a.store(c.ptr, t, 0, a.sizeof(c.t))
		}
	}
}

type oaUnwrap struct{ res oaNodeID }

func (c *oaUnwrap) onAddr(a *oa, e oaNodeID) {
	if o := a.nodes[e].obj; o != nil && o.opaque {
		a.addCopy(c.res, o.start)
	}
}

// fmtOperands models fmt's use of String/Error/GoString/Format methods on its
// operands (the last argument is the variadic []any).
func (a *oa) fmtOperands(x *oaExt) {
	if len(x.args) == 0 {
		return
	}
	last := x.args[len(x.args)-1]
	st, ok := last.t.Underlying().(*types.Slice)
	if !ok {
		return
	}
	if _, ok := st.Elem().Underlying().(*types.Interface); !ok {
		return
	}
	t := a.tmp(1, "fmt operand")
	a.load(t, last.n, 1, 1)
	a.addCons(t, &oaFmtWalk{x: x})
}

type oaFmtWalk struct{ x *oaExt }

func (c *oaFmtWalk) onAddr(a *oa, e oaNodeID) {
	o := a.nodes[e].obj
	if o == nil || !o.tagged {
		return
	}
	a.fmtVisit(c.x, o.start+1, o.typ, 0)
}

var oaFmtMethods = []string{"String", "Error", "GoString", "Format"}

func (a *oa) fmtVisit(x *oaExt, blk oaNodeID, t types.Type, depth int) {
	key := fmt.Sprintf("%p/%d/%s", x.ins, blk, types.TypeString(t, nil))
	if a.fmtSeen[key] || depth > 12 {
		return
	}
	a.fmtSeen[key] = true
	if _, isNamed := types.Unalias(t).(*types.Named); isNamed || oaIsPtrToNamed(t) {
		for _, m := range oaFmtMethods {
			var fn *ssa.Function
			ms := a.prog.SSA.MethodSets.MethodSet(t)
			for i := 0; i < ms.Len(); i++ {
				if ms.At(i).Obj().Name() == m {
					fn = a.prog.SSA.MethodValue(ms.At(i))
				}
			}
			if fn == nil || !oaOurs(oaPkgPath(fn)) {
				continue
			}
			args := []oaArg{{blk, t}}
			for j := 1; j < len(fn.Params); j++ {
				pt := fn.Params[j].Type()
				p := a.tmp(a.sizeof(pt), "")
				if a.hasPointers(pt) {
					a.fillOpaque(p, a.sizeof(pt), a.newOpaque(oaUnknown, "fmt state passed to Format", a.posOf(x.ins)))
				}
				args = append(args, oaArg{p, pt})
			}
			a.callFn(x.f, x.ins, fn, args, a.tmp(a.sizeof(fn.Signature.Results()), ""), fn.Signature.Results())
		}
	}
	canon := func(et types.Type) oaNodeID {
		k := fmt.Sprintf("%p/%s", x.ins, types.TypeString(et, nil))
		if n, ok := a.fmtTmp[k]; ok {
			return n
		}
		n := a.tmp(a.sizeof(et), "fmt operand")
		a.fmtTmp[k] = n
		return n
	}
	switch u := t.Underlying().(type) {
	case *types.Struct:
		l := a.layout(t)
		for i := 0; i < u.NumFields(); i++ {
			a.fmtVisit(x, blk+oaNodeID(l.off[i]), u.Field(i).Type(), depth+1)
		}
	case *types.Array:
		a.fmtVisit(x, blk+1, u.Elem(), depth+1)
	case *types.Pointer:
		n := canon(u.Elem())
		a.load(n, blk, 0, a.sizeof(u.Elem()))
		a.fmtVisit(x, n, u.Elem(), depth+1)
	case *types.Slice:
		n := canon(u.Elem())
		a.load(n, blk, 1, a.sizeof(u.Elem()))
		a.fmtVisit(x, n, u.Elem(), depth+1)
	case *types.Map:
		k, v := canon(u.Key()), canon(u.Elem())
		a.load(k, blk, 1, a.sizeof(u.Key()))
		a.load(v, blk, 1+a.sizeof(u.Key()), a.sizeof(u.Elem()))
		a.fmtVisit(x, k, u.Key(), depth+1)
		a.fmtVisit(x, v, u.Elem(), depth+1)
	case *types.Interface:
		a.addCons(blk, &oaFmtWalk{x: x})
	}
}

func oaIsPointer(t types.Type) bool {
	_, ok := t.Underlying().(*types.Pointer)
	return ok
}

func oaIsPtrToNamed(t types.Type) bool {
	p, ok := t.Underlying().(*types.Pointer)
	if !ok {
		return false
	}
	_, ok = types.Unalias(p.Elem()).(*types.Named)
	return ok
}

// ---------------------------------------------------------------- driver

type oaEntry struct {
	name   string
	region oaRegion // region of the receiver
	desc   string
}

var oaEntries = []oaEntry{
	{"npm.(*resolver).Resolve", oaResolver, "the npm resolver object (receiver of Resolve)"},
	{"maven.(*resolver).Resolve", oaResolver, "the maven resolver object (receiver of Resolve)"},
	{"pypi.(*resolver).Resolve", oaResolver, "the pypi resolver object (receiver of Resolve)"},
	{"resolve.(*LocalClient).Version", oaClient, "the LocalClient's own state (receiver)"},
	{"resolve.(*LocalClient).Versions", oaClient, "the LocalClient's own state (receiver)"},
	{"resolve.(*LocalClient).Requirements", oaClient, "the LocalClient's own state (receiver)"},
	{"resolve.(*LocalClient).MatchingVersions", oaClient, "the LocalClient's own state (receiver)"},
}

type oaSiteResult struct {
	fn      *ssa.Function
	ins     ssa.Instruction
	pos     token.Pos
	failed  bool
	memo    bool
	details []string
	entries []string
	empty   bool
}

type oaRun struct {
	a        *oa
	funcs    int
	sites    int
	failed   int
	rounds   int
	versions int
}

// analyseEntry runs the analysis for one entry point until the soft escapes
// of private locals are validated.
func oaAnalyseEntry(prog *Prog, e oaEntry, retaining map[ssa.Instruction]bool) *oaRun {
	fn := prog.Funcs[e.name]
	if fn == nil {
		return nil
	}
	for round := 1; ; round++ {
		a := newOA(prog, retaining)
		// package initialisers populate the globals (init context).
		var paths []string
		for p := range prog.Pkgs {
			if oaOurs(p) {
				paths = append(paths, p)
			}
		}
		sort.Strings(paths)
		for _, p := range paths {
			if init := prog.Pkgs[p].Func("init"); init != nil {
				a.gen(a.inst(true, init))
			}
		}
		f := a.inst(false, fn)
		for i, p := range fn.Params {
			sz := a.sizeof(p.Type())
			base := f.params + oaNodeID(f.paramOff[i])
			switch {
			case i == 0 && fn.Signature.Recv() != nil:
				a.fillOpaque(base, sz, a.newOpaque(e.region, e.desc, fn.Pos()))
			case a.hasPointers(p.Type()):
				a.fillOpaque(base, sz, a.newOpaque(oaCaller, "caller-owned argument "+p.Name(), fn.Pos()))
			}
		}
		a.gen(f)
		a.solve()
		bad := a.validateScratch()
		if len(bad) == 0 {
			r := &oaRun{a: a, rounds: round}
			for _, fi := range a.insts {
				if !fi.init && fi.generated && fi.fn.Blocks != nil {
					r.funcs++
				}
				r.versions += len(fi.priv)
			}
			return r
		}
		for _, c := range bad {
			retaining[c] = true
		}
	}
}

// targets evaluates the set of written objects of a site after solving.
func (a *oa) targets(s *oaSite) map[*oaObj][2]oaNodeID {
	out := map[*oaObj][2]oaNodeID{}
	add := func(n oaNodeID) {
		for e := range a.nodes[n].pts {
			if o := a.nodes[e].obj; o != nil {
				if old, ok := out[o]; !ok || e < old[1] {
					out[o] = [2]oaNodeID{n, e}
				}
			}
		}
	}
	for _, p := range s.ptr {
		add(p)
	}
	for _, b := range s.boxed {
		for e := range a.nodes[b].pts {
			o := a.nodes[e].obj
			if o == nil {
				continue
			}
			if o.opaque {
				if _, ok := out[o]; !ok {
					out[o] = [2]oaNodeID{b, e}
				}
				continue
			}
			if !o.tagged {
				continue
			}
			// every pointer-like leaf of the payload: the slice itself, or the
			// slices inside the sort.Interface implementation
			for i, l := range a.layout(o.typ).leaves {
				if oaPointerLike(l) {
					add(o.start + 1 + oaNodeID(i))
				}
			}
		}
	}
	return out
}

// leakedObjects finds the FRESH objects reachable from shared (non-fresh)
// memory: they were stored there by the analysed call, so they are shared with
// later and concurrent calls. (Values handed to the LRU caches are not covered:
// see the limitations.)
func (a *oa) leakedObjects() map[*oaObj]*oaObj {
	leaked := map[*oaObj]*oaObj{}
	type item struct {
		n      oaNodeID
		holder *oaObj
	}
	var stack []item
	for _, o := range a.objs {
		if o.region != oaFresh && o.region != oaCode {
			for i := 0; i < o.size; i++ {
				stack = append(stack, item{o.start + oaNodeID(i), o})
			}
		}
	}
	for len(stack) > 0 {
		it := stack[len(stack)-1]
		stack = stack[:len(stack)-1]
		for e := range a.nodes[it.n].pts {
			o := a.nodes[e].obj
			if o == nil || o.region != oaFresh || leaked[o] != nil {
				continue
			}
			leaked[o] = it.holder
			for i := 0; i < o.size; i++ {
				stack = append(stack, item{o.start + oaNodeID(i), it.holder})
			}
		}
	}
	return leaked
}

// path reconstructs how element e reached node n.
func (a *oa) path(n, e oaNodeID) string {
	var labels []string
	seen := map[[2]oaNodeID]bool{}
	for n >= 0 {
		k := [2]oaNodeID{n, e}
		if seen[k] {
			break
		}
		seen[k] = true
		nd := &a.nodes[n]
		l := nd.label
		if l == "" && nd.obj != nil && !nd.obj.opaque && nd.obj.scratchF == nil {
			l = "[stored in " + nd.obj.desc + "]"
		}
		if l != "" && (len(labels) == 0 || labels[len(labels)-1] != l) {
			labels = append(labels, l)
		}
		p, ok := nd.pts[e]
		if !ok {
			break
		}
		n, e = p.node, p.elem
	}
	for i, j := 0, len(labels)-1; i < j; i, j = i+1, j-1 {
		labels[i], labels[j] = labels[j], labels[i]
	}
	if len(labels) > 9 {
		labels = append(append(append([]string{}, labels[:4]...), "..."), labels[len(labels)-4:]...)
	}
	return strings.Join(labels, " -> ")
}

// OwnershipObligations analyses the three resolvers and returns one obligation per write site
// reachable from each Resolve entry point. Status "proved" if the written location can only be
// memory allocated during the Resolve call (or a local), "failed" if it may be client-owned,
// resolver-owned (outside the allowed memo caches), a package-level variable, or unknown.
// The four (*LocalClient) methods are analysed as additional entry points with the receiver's
// state as CLIENT memory.
func OwnershipObligations(prog *Prog) []OblResult {
	const solver = "ownership analysis (points-to over go/ssa)"
	type key struct {
		fn  *ssa.Function
		ins ssa.Instruction
	}
	merged := map[key]*oaSiteResult{}
	var order []key
	var summaries []OblResult
	retaining := map[ssa.Instruction]bool{}
	for _, e := range oaEntries {
		r := oaAnalyseEntry(prog, e, retaining)
		if r == nil {
			summaries = append(summaries, OblResult{Name: e.name + "#reachable", Status: "failed", Solver: solver, Kind: "frame-summary", Func: e.name, Detail: "entry point not found"})
			continue
		}
		a := r.a
		// group the sites of this run by instruction (one instruction may be
		// reached through several modelled effects; all must be fresh)
		type agg struct {
			failed  bool
			memo    bool
			details []string
			empty   bool
			pos     token.Pos
		}
		per := map[key]*agg{}
		var perOrder []key
		leaked := a.leakedObjects()
		for _, s := range a.sites {
			k := key{s.f.fn, s.ins}
			g := per[k]
			if g == nil {
				g = &agg{pos: a.posOf(s.ins), empty: true}
				per[k] = g
				perOrder = append(perOrder, k)
			}
			if s.memo {
				g.memo = true
				g.empty = false
				// A memo cache that is not part of the resolver object (package-level, client-owned,
				// unknown) is shared between resolvers: its unsynchronised updates are not allowed.
				for o := range a.targets(s) {
					if o.region == oaGlobal || o.region == oaClient || o.region == oaUnknown {
						g.failed = true
						g.memo = false
						g.details = append(g.details, fmt.Sprintf("LRU cache updated by %s is %s memory (%s), not a cache owned by the resolver: shared between resolvers and goroutines", s.what, o.region, o.desc))
						break
					}
				}
				continue
			}
			if s.fail != "" {
				g.failed = true
				g.empty = false
				g.details = append(g.details, s.fail)
				continue
			}
			tg := a.targets(s)
			if len(tg) > 0 {
				g.empty = false
			}
			var objs []*oaObj
			for o := range tg {
				objs = append(objs, o)
			}
			sort.Slice(objs, func(i, j int) bool { return objs[i].start < objs[j].start })
			byRegion := map[oaRegion]bool{}
			for _, o := range objs {
				if o.region == oaFresh {
					if holder := leaked[o]; holder != nil && !byRegion[oaFresh] {
						// allocated during the call, but a (failed) store put it into
						// shared memory: later and concurrent calls can reach it
						byRegion[oaFresh] = true
						g.failed = true
						g.details = append(g.details, fmt.Sprintf("%s written (%s) is %s, which the call itself stores into %s memory (%s): reachable by later or concurrent calls",
							s.what, strings.TrimPrefix(s.kind, "call:"), o.desc, holder.region, holder.desc))
					}
					continue
				}
				g.failed = true
				if byRegion[o.region] && len(g.details) >= 2 {
					continue
				}
				byRegion[o.region] = true
				d := fmt.Sprintf("%s written (%s) may be %s memory: %s", s.what, strings.TrimPrefix(s.kind, "call:"), o.region, o.desc)
				if p := a.path(tg[o][0], tg[o][1]); p != "" {
					d += "; flow: " + p
				}
				g.details = append(g.details, d)
			}
		}
		nfail := 0
		for _, k := range perOrder {
			g := per[k]
			m := merged[k]
			if m == nil {
				m = &oaSiteResult{fn: k.fn, ins: k.ins, pos: g.pos, empty: true}
				merged[k] = m
				order = append(order, k)
			}
			m.entries = append(m.entries, e.name)
			m.memo = m.memo || g.memo
			m.empty = m.empty && g.empty
			if g.failed {
				nfail++
				m.failed = true
				for _, d := range g.details {
					if len(m.details) < 4 {
						m.details = append(m.details, "["+e.name+"] "+d)
					}
				}
			}
		}
		var anomalies []string
		for s := range a.anomalies {
			anomalies = append(anomalies, s)
		}
		sort.Strings(anomalies)
		det := fmt.Sprintf("%d functions analysed, %d write sites checked: %d proved, %d failed; %d flow-sensitive locals, %d solver round(s), %d nodes, %d abstract objects",
			r.funcs, len(perOrder), len(perOrder)-nfail, nfail, r.versions, r.rounds, len(a.nodes), len(a.objs))
		st := "proved"
		if len(anomalies) > 0 {
			det += "; analysis anomalies: " + strings.Join(anomalies, " | ")
			st = "failed"
		}
		summaries = append(summaries, OblResult{Name: e.name + "#reachable", Status: st, Solver: solver, Kind: "frame-summary", Func: e.name, Detail: det, Site: fmt.Sprintf("%d functions, %d write sites", r.funcs, len(perOrder))})
	}

	// names: <FuncName>#write:<line>, numbered in instruction order per function
	sort.SliceStable(order, func(i, j int) bool {
		fi, fj := FuncName(order[i].fn), FuncName(order[j].fn)
		if fi != fj {
			return fi < fj
		}
		bi, bj := order[i].ins.Block(), order[j].ins.Block()
		if bi.Index != bj.Index {
			return bi.Index < bj.Index
		}
		return oaInstrIndex(bi, order[i].ins) < oaInstrIndex(bj, order[j].ins)
	})
	var out []OblResult
	count := map[string]int{}
	for _, k := range order {
		m := merged[k]
		line := prog.lineText(m.pos)
		name := FuncName(k.fn) + "#write:" + line
		count[name]++
		if c := count[name]; c > 1 {
			name = fmt.Sprintf("%s@%d", name, c)
		}
		r := OblResult{Name: name, Status: "proved", Solver: solver, Kind: "frame", Func: FuncName(k.fn), Site: line}
		switch {
		case m.failed:
			r.Status = "failed"
			r.Detail = strings.Join(m.details, " || ")
		case m.memo:
			r.Kind = "frame-memo"
			r.Detail = "allowed memo effect on the resolver's LRU cache (trusted, not proved; the cache itself is not synchronised)"
		case m.empty:
			r.Detail = "no abstract target: the written pointer is nil or the site is unreachable in the abstraction"
		}
		if !m.failed && !m.memo {
			r.Detail = strings.TrimSpace(r.Detail + " (reached from " + strings.Join(m.entries, ", ") + ")")
		}
		out = append(out, r)
	}
	out = append(out, summaries...)
	for i := range out {
		out[i].Order = i
	}
	return out
}

func oaInstrIndex(b *ssa.BasicBlock, ins ssa.Instruction) int {
	for i, x := range b.Instrs {
		if x == ins {
			return i
		}
	}
	return -1
}
