package main

import (
	"fmt"
	"go/types"
	"sort"
	"strings"

	"golang.org/x/tools/go/ssa"
)

// LockObligations checks a `guarded_by` discipline on a struct field: every
// access to field `guarded` of struct `typ` (in package pkgPath) must be
// dominated by a Lock of field `mutex` of the same struct value, with no
// Unlock in between (a deferred Unlock counts as held until the function
// returns); and every other field of the struct may only be written in the
// constructor `ctor`. One obligation per access / write site.
func LockObligations(prog *Prog, pkgPath, typ, guarded, mutex, ctor string) []OblResult {
	var out []OblResult
	sp := prog.Pkgs[pkgPath]
	if sp == nil {
		return []OblResult{{Name: typ + "#guarded:package", Status: "failed", Detail: "package not loaded", Kind: "lock"}}
	}
	isField := func(fa *ssa.FieldAddr, name string) bool {
		pt, ok := fa.X.Type().Underlying().(*types.Pointer)
		if !ok {
			return false
		}
		nt, ok := pt.Elem().(*types.Named)
		if !ok || nt.Obj().Name() != typ || nt.Obj().Pkg().Path() != pkgPath {
			return false
		}
		st := nt.Underlying().(*types.Struct)
		return st.Field(fa.Field).Name() == name
	}
	fieldName := func(fa *ssa.FieldAddr) (string, bool) {
		pt, ok := fa.X.Type().Underlying().(*types.Pointer)
		if !ok {
			return "", false
		}
		nt, ok := pt.Elem().(*types.Named)
		if !ok || nt.Obj().Name() != typ || nt.Obj().Pkg().Path() != pkgPath {
			return "", false
		}
		return nt.Underlying().(*types.Struct).Field(fa.Field).Name(), true
	}
	var fns []*ssa.Function
	for _, fn := range prog.Funcs {
		if fn.Pkg == sp && fn.Blocks != nil {
			fns = append(fns, fn)
		}
	}
	sort.Slice(fns, func(i, j int) bool { return FuncName(fns[i]) < FuncName(fns[j]) })
	count := map[string]int{}
	add := func(fn *ssa.Function, kind string, in ssa.Instruction, ok bool, detail string) {
		line := prog.lineText(in.Pos())
		name := fmt.Sprintf("%s#%s:%s", FuncName(fn), kind, line)
		count[name]++
		if c := count[name]; c > 1 {
			name = fmt.Sprintf("%s@%d", name, c)
		}
		r := OblResult{Name: name, Status: "proved", Kind: "lock", Func: FuncName(fn), Site: line, Solver: "lock discipline (dominance over go/ssa)", Order: len(out)}
		if !ok {
			r.Status = "failed"
			r.Detail = detail
		}
		out = append(out, r)
	}
	instrIndex := func(in ssa.Instruction) int {
		for i, x := range in.Block().Instrs {
			if x == in {
				return i
			}
		}
		return -1
	}
	dominates := func(a, b ssa.Instruction) bool {
		if a.Block() == b.Block() {
			return instrIndex(a) < instrIndex(b)
		}
		return a.Block().Dominates(b.Block())
	}
	for _, fn := range fns {
		// lock/unlock calls on the mutex field, deferred unlocks
		var locks, unlocks []ssa.Instruction
		deferredUnlock := false
		for _, b := range fn.Blocks {
			for _, in := range b.Instrs {
				var cc *ssa.CallCommon
				deferred := false
				switch in := in.(type) {
				case *ssa.Call:
					cc = &in.Call
				case *ssa.Defer:
					cc = &in.Call
					deferred = true
				}
				if cc == nil || cc.IsInvoke() {
					continue
				}
				callee := cc.StaticCallee()
				if callee == nil || len(cc.Args) == 0 {
					continue
				}
				fa, ok := cc.Args[0].(*ssa.FieldAddr)
				if !ok || !isField(fa, mutex) {
					continue
				}
				switch {
				case strings.HasSuffix(callee.String(), ".Lock"):
					if !deferred {
						locks = append(locks, in)
					}
				case strings.HasSuffix(callee.String(), ".Unlock"):
					if deferred {
						deferredUnlock = true
					} else {
						unlocks = append(unlocks, in)
					}
				}
			}
		}
		for _, b := range fn.Blocks {
			for _, in := range b.Instrs {
				fa, ok := in.(*ssa.FieldAddr)
				if !ok {
					continue
				}
				name, ok := fieldName(fa)
				if !ok {
					continue
				}
				if name == guarded {
					if FuncName(fn) == ctor {
						continue // not shared yet
					}
					held := false
					why := "no Lock of " + mutex + " dominates the access"
					for _, l := range locks {
						if !dominates(l, in) {
							continue
						}
						held = true
						for _, u := range unlocks {
							if dominates(l, u) && dominates(u, in) {
								held = false
								why = "an Unlock lies between the Lock and the access"
							}
						}
						if held {
							break
						}
					}
					if held && !deferredUnlock {
						// explicit unlocks must come after the access on every path; accept if some unlock is dominated by the access
						okU := false
						for _, u := range unlocks {
							if dominates(in, u) {
								okU = true
							}
						}
						if !okU && len(unlocks) > 0 {
							held = false
							why = "Unlock is not ordered after the access"
						}
					}
					add(fn, "guarded", in, held, why)
					continue
				}
				if name == mutex {
					continue
				}
				// other fields: written only in the constructor
				for _, ref := range *fa.Referrers() {
					if st, isStore := ref.(*ssa.Store); isStore && st.Addr == fa && FuncName(fn) != ctor {
						add(fn, "fieldwrite", st, false, "field "+name+" of "+typ+" is written outside "+ctor)
					}
				}
			}
		}
	}
	if len(out) == 0 {
		out = append(out, OblResult{Name: typ + "#guarded:no access found", Status: "failed", Detail: "the guarded field is never accessed: contract does not bind", Kind: "lock"})
	}
	// summary: no unguarded access anywhere
	bad := 0
	for _, r := range out {
		if r.Status != "proved" {
			bad++
		}
	}
	sum := OblResult{Name: typ + "#guarded:every access to " + guarded + " holds " + mutex + "; other fields are only written in " + ctor, Status: "proved", Kind: "lock", Solver: "lock discipline (dominance over go/ssa)", Order: len(out), Site: fmt.Sprintf("%d access sites", len(out))}
	if bad > 0 {
		sum.Status = "failed"
		sum.Detail = fmt.Sprintf("%d sites fail", bad)
	}
	return append(out, sum)
}
