package main

import (
	"time"
	"context"
	"fmt"
	"go/types"
	"os"
	"os/exec"
	"sort"
	"strings"
	"sync"

	"golang.org/x/tools/go/ssa"
)

// OblResult is the outcome of one obligation.
type OblResult struct {
	Name     string  `json:"name"`
	Property string  `json:"-"`
	Status   string  `json:"status"` // proved | failed | unknown | unsupported | vacuous
	Solver   string  `json:"solver,omitempty"`
	Secs     float64 `json:"secs"`
	Detail   string  `json:"detail,omitempty"`
	Model    string  `json:"-"`
	SMTBytes int     `json:"smt_bytes"`
	Func     string  `json:"func,omitempty"`
	Site     string  `json:"site,omitempty"`
	Kind     string  `json:"kind,omitempty"`
	Query    string  `json:"-"`
	Known    string  `json:"known,omitempty"`
	Goal     string  `json:"-"`
	Lemma    *Lemma  `json:"-"`
	Renamed  string  `json:"renamed_from,omitempty"`
	Order    int     `json:"-"`
}

type lemmaCtx struct {
	prog  *Prog
	specs *Specs
	pkg   *types.Package
}

// bindVars creates fresh symbolic values for the lemma variables.
func (x *X) bindVars(pkg *types.Package, vars []VarDecl) *Env {
	env := &Env{vars: map[string]TV{}, pkg: pkg}
	for _, v := range vars {
		t := x.resolveType(pkg, v.Type)
		env.vars[v.Name] = TV{x.freshVal(t, v.Name), t}
	}
	return env
}

// boundVars binds the lemma variables to SMT bound variables (for exported axioms).
func (x *X) boundVars(pkg *types.Package, vars []VarDecl, prefix string) (*Env, []string, []string) {
	env := &Env{vars: map[string]TV{}, pkg: pkg}
	var decls []string
	var guards []string
	for _, v := range vars {
		t := x.resolveType(pkg, v.Type)
		var names []S
		var mk func(t types.Type, hint string)
		mk = func(t types.Type, hint string) {
			switch kindOf(t) {
			case kStruct:
				st := t.Underlying().(*types.Struct)
				for i := 0; i < st.NumFields(); i++ {
					mk(st.Field(i).Type(), hint+"."+st.Field(i).Name())
				}
			case kSlice:
				for _, s := range []string{".arr", ".off", ".len", ".cap"} {
					names = append(names, S{prefix + hint + s, SInt})
				}
				n := len(names)
				guards = append(guards, fmt.Sprintf("(and (<= 0 %s) (<= 0 %s) (<= %s %s))", names[n-3].T, names[n-2].T, names[n-2].T, names[n-1].T))
			case kIface:
				names = append(names, S{prefix + hint + ".tag", SInt}, S{prefix + hint + ".ref", SInt})
			case kInt:
				nm := prefix + hint
				names = append(names, S{nm, SInt})
				lo, hi := intBounds(t)
				guards = append(guards, fmt.Sprintf("(and (<= %s %s) (<= %s %s))", lo, nm, nm, hi))
			case kString:
				nm := prefix + hint
				names = append(names, S{nm, SStr})
				guards = append(guards, "(>= "+nm+" 0.0)")
			default:
				names = append(names, S{prefix + hint, x.leafSort(t)})
			}
		}
		mk(t, v.Name)
		for _, n := range names {
			decls = append(decls, "("+n.T+" "+n.Sort+")")
		}
		val, _ := x.rebuild(t, names)
		env.vars[v.Name] = TV{val, t}
	}
	return env, decls, guards
}

// axiomsOf renders an exported lemma as quantified axioms over opaque symbols.
func (x *X) axiomsOf(pkg *types.Package, l *Lemma) []string {
	saveInline, saveSt, saveUnfold := x.inline, x.st, x.unfold
	x.inline = true
	x.unfold = map[string]bool{}
	x.st = x.st.clone()
	x.noOblig++
	defer func() { x.inline, x.st, x.unfold = saveInline, saveSt, saveUnfold; x.noOblig-- }()
	env, decls, guards := x.boundVars(pkg, l.Vars, "v!"+sanitize(l.Name)+"!")
	var reqs []string
	reqs = append(reqs, guards...)
	for _, r := range l.Requires {
		reqs = append(reqs, x.evalBool(env, r))
	}
	for _, k := range l.Known {
		reqs = append(reqs, not(x.evalBool(env, k.When)))
	}
	var out []string
	for _, e := range l.Ensures {
		goal := x.evalBool(env, e)
		body := implies(and(reqs...), goal)
		if len(decls) == 0 {
			out = append(out, body)
			continue
		}
		pat := ""
		if len(l.Patterns) > 0 {
			var ps []string
			for _, p := range l.Patterns {
				var terms []string
				for _, pe := range splitTop(p, ';') {
					tv := x.evalSrc(env, pe)
					terms = append(terms, x.flatten(tv.V)[0].T)
				}
				ps = append(ps, ":pattern ("+strings.Join(terms, " ")+")")
			}
			pat = " " + strings.Join(ps, " ")
		}
		if pat != "" {
			out = append(out, fmt.Sprintf("(forall (%s) (! %s%s))", strings.Join(decls, " "), body, pat))
		} else {
			out = append(out, fmt.Sprintf("(forall (%s) %s)", strings.Join(decls, " "), body))
		}
	}
	return out
}

func splitTop(s string, sep byte) []string {
	var out []string
	d := 0
	last := 0
	for i := 0; i < len(s); i++ {
		switch s[i] {
		case '(', '[':
			d++
		case ')', ']':
			d--
		case sep:
			if d == 0 {
				out = append(out, strings.TrimSpace(s[last:i]))
				last = i + 1
			}
		}
	}
	out = append(out, strings.TrimSpace(s[last:]))
	return out
}

// lemmasAbout lists exported lemmas (earlier than `before` in file order)
// whose statement is about opaque function name.
func lemmasAbout(specs *Specs, name string, before int) []*Lemma {
	var out []*Lemma
	for _, l := range append(append([]*Lemma{}, specs.Foreign...), specs.Lemmas...) {
		if !l.Export || l.Order >= before {
			continue
		}
		for _, u := range l.Unfold {
			if u == name {
				out = append(out, l)
				break
			}
		}
	}
	return out
}

// ProveLemma checks every `ensures` of lemma l.
func ProveLemma(prog *Prog, specs *Specs, l *Lemma, tier string) (res []OblResult) {
	return ProveLemmaCtx(prog, specs, l, tier, nil)
}

// ProveLemmaCtx proves each `ensures` in a context of its own (only the calls
// that goal mentions are unfolded), which keeps the queries small.
func ProveLemmaCtx(prog *Prog, specs *Specs, l *Lemma, tier string, c *checkCtx) (res []OblResult) {
	if l.Assumed != "" {
		if c != nil {
			c.mu.Lock()
			c.ext["assumed lemma "+specs.PkgName+"."+l.Name+": "+l.Assumed] = true
			c.mu.Unlock()
		}
		return nil
	}
	if len(l.Ensures) <= 1 {
		return proveLemmaPart(prog, specs, l, tier, c, 0)
	}
	parts := make([][]OblResult, len(l.Ensures))
	var wg sync.WaitGroup
	for i := range l.Ensures {
		li := *l
		li.Ensures = []string{l.Ensures[i]}
		if i > 0 {
			li.NoRead = nil
		}
		wg.Add(1)
		go func(i int, li Lemma) {
			defer wg.Done()
			parts[i] = proveLemmaPart(prog, specs, &li, tier, c, i)
		}(i, li)
	}
	wg.Wait()
	for i := range parts {
		for j := range parts[i] {
			parts[i][j].Lemma = l
		}
		res = append(res, parts[i]...)
	}
	return res
}

func proveLemmaPart(prog *Prog, specs *Specs, l *Lemma, tier string, c *checkCtx, off int) (res []OblResult) {
	pkg := prog.PPkgs[specs.PkgPath].Types
	x := NewX(prog, specs, modeSummary)
	x.unfold = map[string]bool{}
	for _, u := range l.Unfold {
		x.unfold[u] = true
	}
	x.noOblig++
	x.curFn = "lemma:" + l.Name
	name := func(i int) string { return fmt.Sprintf("lemma:%s.%s#%d", specs.PkgName, l.Name, i+1+off) }
	defer func() {
		if r := recover(); r != nil {
			u, ok := r.(unsupported)
			if !ok {
				// the contract no longer binds to the code (renamed or re-shaped function, changed signature)
				res = nil
				for i := range l.Ensures {
					res = append(res, OblResult{Name: name(i), Status: "unbound", Detail: fmt.Sprint(r), Lemma: l, Kind: "lemma", Site: l.Ensures[i]})
				}
				return
			}
			res = nil
			for i := range l.Ensures {
				res = append(res, OblResult{Name: name(i), Status: "unsupported", Detail: u.why, Lemma: l})
			}
		}
	}()
	env := x.bindVars(pkg, l.Vars)
	// closures with symbolic captured variables
	for _, cd := range l.Closures {
		fn := prog.Func(cd.Fn)
		if fn == nil {
			panic(fmt.Sprintf("contract: no closure %s", cd.Fn))
		}
		clo := Clo{Fn: fn}
		for _, fv := range fn.FreeVars {
			var decl *VarDecl
			for i := range cd.Free {
				if cd.Free[i].Name == fv.Name() {
					decl = &cd.Free[i]
				}
			}
			if decl == nil {
				panic(fmt.Sprintf("contract: closure %s captures %s, which the declaration does not list", cd.Fn, fv.Name()))
			}
			t := x.resolveType(pkg, decl.Type)
			v := x.freshVal(t, decl.Name)
			env.vars[decl.Name] = TV{v, t}
			x.cellN++
			cell := &Cell{id: x.cellN, name: decl.Name, typ: t}
			x.st.cells[cell] = v
			clo.Free = append(clo.Free, Ptr{Kind: pCell, Cell: cell, Root: t})
		}
		env.vars[cd.Name] = TV{clo, fn.Signature}
		x.unfold[cd.Fn] = true
	}
	x.polarity = -1
	for _, r := range l.Requires {
		x.sc.Assert(x.evalBool(env, r))
	}
	x.polarity = 1
	var known []string
	for _, k := range l.Known {
		c := x.evalBool(env, k.When)
		known = append(known, c)
		x.sc.Assert(not(c))
	}
	var goals []string
	x.polarity = 1
	for _, e := range l.Ensures {
		goals = append(goals, x.evalBool(env, e))
	}
	x.polarity = 1
	var splitTerms [][]string
	for _, alts := range l.Splits {
		var ts []string
		for _, a := range alts {
			ts = append(ts, x.evalBool(env, a))
		}
		splitTerms = append(splitTerms, ts)
	}
	var showTerms []string
	if show := os.Getenv("GOVC_SHOW"); show != "" {
		for _, e := range splitTop(show, ';') {
			if e == "" {
				continue
			}
			for _, s := range x.flatten(x.evalSrc(env, e).V) {
				showTerms = append(showTerms, s.T)
			}
		}
	}
	// axioms for opaque functions used (closure)
	doneAx := map[string]bool{}
	for changed := true; changed; {
		changed = false
		var names []string
		for n := range x.usedOpq {
			names = append(names, n)
		}
		sort.Strings(names)
		for _, n := range names {
			if fs := specs.Funcs[n]; fs != nil && len(fs.Ensures) > 0 && !doneAx["contract:"+n] {
				doneAx["contract:"+n] = true
				changed = true
				x.sc.Comment("contract of " + n + " (its verification conditions are discharged separately)")
				for _, ax := range x.contractAxioms(pkgOf(x.usedOpq[n]), x.usedOpq[n], fs) {
					x.sc.Assert(ax)
				}
			}
			for _, m := range lemmasAbout(specs, n, l.Order) {
				if doneAx[m.Name] {
					continue
				}
				doneAx[m.Name] = true
				changed = true
				x.sc.Comment("axioms from lemma " + m.Name)
				if m.Assumed != "" {
					x.externs["assumed lemma "+m.Name+": "+m.Assumed] = true
				}
				mpkg := pkg
				if pth, ok := specs.ForeignOf[m]; ok {
					mpkg = prog.PPkgs[pth].Types
				}
				for _, ax := range x.axiomsOf(mpkg, m) {
					x.sc.Assert(ax)
				}
			}
		}
	}
	for _, u := range l.Uses {
		for _, m := range specs.Lemmas {
			if m.Name == u && m.Order < l.Order && !doneAx[m.Name] {
				doneAx[m.Name] = true
				for _, ax := range x.axiomsOf(pkg, m) {
					x.sc.Assert(ax)
				}
			}
		}
	}
	// instantiate the quantified facts at every witness, skolem constant and index term
	if !l.NoInst {
		x.sc.add(x.instances(len(x.sc.lines)))
	}
	if c != nil {
		c.mu.Lock()
		for _, u := range l.Unfold {
			c.fns[u+" (derived summary)"] = true
		}
		for n := range x.usedOpq {
			c.fns[n+" (by proved laws)"] = true
		}
		for e := range x.externs {
			c.ext[e] = true
		}
		c.mu.Unlock()
	}
	base := x.sc.Text() + x.strLitDecls()
	timeout := 60
	if tier == "thorough" {
		timeout = 300
	}
	if len(showTerms) > 0 {
		terms := append(showTerms, x.witnesses...)
		for i, g := range goals {
			q := qfVariant(base+"(assert (not "+g+"))\n") + "(check-sat)\n(get-value (" + strings.Join(terms, " ") + "))\n"
			f := fmt.Sprintf("%s/show%d.smt2", scratch(), i)
			os.WriteFile(f, []byte(q), 0o644)
			out, _ := exec.Command("z3-new", "-T:30", f).CombinedOutput()
			fmt.Printf("---- %s\n%s\n", name(i), out)
		}
	}
	// side conditions: unsupported program points must be unreachable
	for _, sc := range x.sideConds {
		r := Solve(name(0)+".side", instVariant(base)+"(assert "+sc.cond+")\n", timeout, false, false)
		if r.Status != "unsat" {
			res = nil
			for i := range l.Ensures {
				res = append(res, OblResult{Name: name(i), Status: "unsupported", Detail: sc.why + " (reachable under the lemma's assumptions)", Lemma: l})
			}
			return res
		}
	}
	// case splits: cross product of the alternatives; plus one obligation that the cases are exhaustive
	type ccase struct {
		label string
		cond  string
	}
	cases := []ccase{{"", "true"}}
	if len(splitTerms) > 0 {
		for si, alts := range splitTerms {
			var next []ccase
			for _, c := range cases {
				for ai, a := range alts {
					next = append(next, ccase{fmt.Sprintf("%s.%d%c", c.label, si+1, 'a'+ai), and(c.cond, a)})
				}
			}
			cases = next
			q := base + "(assert (not " + or(alts...) + "))\n"
			cr := decide(fmt.Sprintf("%s.split%d-exhaustive", name(0), si+1), q, timeout, false)
			cr.Kind, cr.Site, cr.Lemma = "lemma", "case split is exhaustive: "+strings.Join(l.Splits[si], " | "), l
			res = append(res, cr)
		}
	}
	type job struct {
		i int
		c ccase
	}
	var jobs []job
	for i := range goals {
		for _, c := range cases {
			jobs = append(jobs, job{i, c})
		}
	}
	out := make([]OblResult, len(jobs))
	var wg sync.WaitGroup
	sem := make(chan struct{}, 5)
	for ji, j := range jobs {
		wg.Add(1)
		go func(ji int, j job) {
			defer wg.Done()
			sem <- struct{}{}
			defer func() { <-sem }()
			q := base
			if j.c.cond != "true" {
				q += "(assert " + j.c.cond + ")\n"
			}
			q += "(assert (not " + goals[j.i] + "))\n"
			nm := name(j.i)
			if j.c.label != "" {
				nm += "/case" + j.c.label
			}
			var or OblResult
			if len(cases) > 1 && tier != "thorough" {
				or = decideLight(nm, q, timeout)
			} else {
				or = decide(nm, q, timeout, tier == "thorough")
			}
			or.Kind, or.Site, or.Func, or.Lemma, or.Goal = "lemma", l.Ensures[j.i], strings.Join(l.Unfold, ","), l, goals[j.i]
			out[ji] = or
		}(ji, j)
	}
	wg.Wait()
	res = append(res, out...)
	// read-frame obligations: the symbolic execution of the unfolded functions touched no such field
	for _, f := range l.NoRead {
		key := "H:" + specs.PkgName + "." + f
		st := "proved"
		detail := ""
		for k := range x.touched {
			if k == key || strings.HasPrefix(k, key+"#") || strings.HasPrefix(k, key+".") {
				st, detail = "failed", "the functions under this lemma read "+k
			}
		}
		res = append(res, OblResult{Name: fmt.Sprintf("lemma:%s.%s#noread:%s", specs.PkgName, l.Name, f), Status: st, Detail: detail, Kind: "read-frame", Site: "does not read " + f, Func: strings.Join(l.Unfold, ","), Lemma: l, Solver: "frame (syntactic over the executed SSA)"})
	}
	// one vacuity probe per lemma
	if len(goals) > 0 {
		r := Solve(name(0)+".cover", base, 10, false, false)
		if r.Status == "unsat" {
			for i := range res {
				res[i].Status = "vacuous"
				res[i].Detail = "assumptions are unsatisfiable"
			}
		}
	}
	return res
}

// qfVariant drops every quantified assertion. Fewer assumptions: an unsat
// answer is still a proof; a sat answer is only a candidate counterexample.
func qfVariant(q string) string {
	var b strings.Builder
	for _, l := range strings.Split(q, "\n") {
		if strings.HasPrefix(l, "(assert") && (strings.Contains(l, "(forall ") || strings.Contains(l, "(exists ")) {
			continue
		}
		b.WriteString(l)
		b.WriteByte('\n')
	}
	return b.String()
}

// instVariant drops the quantified facts that were instantiated explicitly
// at every witness (they have no triggers and only slow the solvers down).
func instVariant(q string) string {
	var b strings.Builder
	for _, l := range strings.Split(q, "\n") {
		if strings.HasSuffix(l, ";@inst") {
			continue
		}
		b.WriteString(l)
		b.WriteByte('\n')
	}
	return b.String()
}

// decide runs the full query and its quantifier-free weakening side by side.
func decide(name, q string, timeout int, thorough bool) OblResult {
	or := OblResult{Name: name, SMTBytes: len(q), Query: q}
	type ans struct {
		r  SolveResult
		qf bool
	}
	ch := make(chan ans, 3)
	fullq := q
	q = instVariant(q)
	if thorough || quantifiedGoal(fullq) {
		q = fullq
	}
	go func() { ch <- ans{Solve(name, q, timeout, true, thorough), false} }()
	qf := qfVariant(q)
	n := 1
	if qf != q {
		n = 2
		go func() { ch <- ans{SolveOne(name+".qf", qf, timeout, "z3-new-5.1.0"), true} }()
	}
	if q != fullq {
		// the exact variant (quantifier definitions kept): an unsat answer is a proof as well
		n++
		go func() {
			r := SolveOne(name+".full", fullq, timeout, "z3-new-5.1.0")
			if r.Status == "sat" {
				r.Status = "unknown"
			}
			r.Solver += " (exact quantifiers)"
			ch <- ans{r, true}
		}()
	}
	var full, weak *SolveResult
	var grace <-chan time.Time
collect:
	for i := 0; i < n; i++ {
		var a ans
		select {
		case a = <-ch:
		case <-grace:
			// thorough tier: the other variants had their extra time to contradict a proof; go on without them
			break collect
		}
		r := a.r
		if r.Status == "unsat" && thorough && grace == nil {
			grace = time.After(30 * time.Second)
		}
		if a.qf {
			weak = &r
		} else {
			full = &r
		}
		if r.Status == "unsat" && !thorough {
			or.Status, or.Solver, or.Secs = "proved", r.Solver, r.Secs
			if a.qf && !strings.Contains(or.Solver, "exact") {
				or.Solver += " (quantifier-free weakening)"
			}
			return or
		}
	}
	if full == nil {
		// (only possible after the grace period: the proof came from a weakened variant)
		full = &SolveResult{Status: "unknown"}
	}
	switch {
	case full.Status == "unsat" || (weak != nil && weak.Status == "unsat"):
		or.Status = "proved"
		or.Solver, or.Secs = full.Solver, full.Secs
		if full.Status != "unsat" {
			or.Solver, or.Secs = weak.Solver+" (quantifier-free weakening)", weak.Secs
		}
		if full.Status == "sat" || full.Status == "disagree" {
			or.Status = "unknown"
			or.Detail = "solvers disagree: " + full.Raw
		}
	case full.Status == "sat" && q == fullq:
		or.Status, or.Solver, or.Secs, or.Model = "failed", full.Solver, full.Secs, full.Model
	case full.Status == "sat":
		// the query answered was the instances-only variant (quantified facts replaced by their
		// instances): its model is a candidate, not a counterexample
		or.Status, or.Solver, or.Secs, or.Model = "unknown", full.Solver, full.Secs, full.Model
		or.Detail = "sat on the instances-only variant, exact variant undecided (candidate model)"
	default:
		or.Status = "unknown"
		or.Secs = full.Secs
		or.Detail = full.Status + " " + full.Raw
		if weak != nil && weak.Status == "sat" {
			or.Model = weak.Model
			or.Detail += " (candidate model from the quantifier-free weakening)"
		}
	}
	return or
}

// decideLight is used for the many small cases of a split lemma: the three
// z3 5.1 configurations only, on the instantiated variant.
func decideLight(name, q string, timeout int) OblResult {
	or := OblResult{Name: name, SMTBytes: len(q), Query: q}
	iq := instVariant(q)
	type ans struct {
		st, solver string
		secs       float64
		model      string
	}
	names := []string{"z3-new-5.1.0", "z3-new-5.1.0/arith2", "z3-new-5.1.0/norelevancy"}
	ch := make(chan ans, len(names))
	ctx, cancel := context.WithCancel(context.Background())
	defer cancel()
	for _, n := range names {
		go func(n string) {
			r := solveOneCtx(ctx, name, iq, timeout, n)
			ch <- ans{r.Status, n, r.Secs, r.Model}
		}(n)
	}
	or.Status = "unknown"
	for range names {
		a := <-ch
		if a.st == "unsat" {
			or.Status, or.Solver, or.Secs = "proved", a.solver, a.secs
			return or
		}
		if a.st == "sat" && or.Status != "failed" {
			or.Status, or.Solver, or.Secs, or.Model = "failed", a.solver, a.secs, a.model
		}
		if a.secs > or.Secs {
			or.Secs = a.secs
		}
	}
	if or.Status == "unknown" {
		or.Detail = "timeout"
	}
	return or
}

// quantifiedGoal reports whether the negated goal (last assertion) contains a quantifier;
// the summary quantifiers are then kept so that the solver can instantiate them at its skolems.
func quantifiedGoal(q string) bool {
	i := strings.LastIndex(q, "(assert (not ")
	return i >= 0 && (strings.Contains(q[i:], "(forall ") || strings.Contains(q[i:], "(exists "))
}

// contractAxioms renders a function contract (requires => ensures with the
// result replaced by the function symbol) as quantified axioms, for use where
// the function is referenced opaquely. The contract itself is a set of
// verification conditions discharged in VC mode.
func (x *X) contractAxioms(pkg *types.Package, fn *ssa.Function, fs *FuncSpec) []string {
	saveInline, saveSt, saveUnfold := x.inline, x.st, x.unfold
	x.inline = true
	x.unfold = map[string]bool{}
	x.st = x.st.clone()
	x.noOblig++
	defer func() { x.inline, x.st, x.unfold = saveInline, saveSt, saveUnfold; x.noOblig-- }()
	var vars []VarDecl
	for _, p := range fn.Params {
		vars = append(vars, VarDecl{p.Name(), types.TypeString(p.Type(), func(q *types.Package) string {
			if q == pkg {
				return ""
			}
			return q.Name()
		})})
	}
	env, decls, guards := x.boundVars(pkg, vars, "v!"+sanitize(fs.Name)+"!")
	var args []Val
	for _, p := range fn.Params {
		args = append(args, env.vars[p.Name()].V)
	}
	res := x.opaqueApp(fn, args)
	bindResult(env, res, resultType(fn.Signature))
	env.old = x.st
	reqs := append([]string{}, guards...)
	for _, r := range fs.Requires {
		reqs = append(reqs, x.evalBool(env, r))
	}
	var flat []string
	for _, s := range x.flatten(res) {
		flat = append(flat, s.T)
	}
	var out []string
	for _, e := range fs.Ensures {
		body := implies(and(reqs...), x.evalBool(env, e))
		if len(decls) == 0 {
			out = append(out, body)
			continue
		}
		out = append(out, fmt.Sprintf("(forall (%s) (! %s :pattern (%s)))", strings.Join(decls, " "), body, flat[0]))
	}
	return out
}
