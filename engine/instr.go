package main

import (
	"fmt"
	"go/constant"
	"go/token"
	"go/types"
	"os"
	"strings"
	"sync"

	"golang.org/x/tools/go/ssa"
)

func (x *X) wrapInt(r string, t types.Type) string {
	bits, signed := intInfo(t)
	r = x.define("ar", SInt, r)
	if bits == 64 {
		if signed {
			return fmt.Sprintf("(ite (> %s 9223372036854775807) (- %s 18446744073709551616) (ite (< %s (- 9223372036854775808)) (+ %s 18446744073709551616) %s))", r, r, r, r, r)
		}
		return fmt.Sprintf("(ite (> %s 18446744073709551615) (- %s 18446744073709551616) (ite (< %s 0) (+ %s 18446744073709551616) %s))", r, r, r, r, r)
	}
	if signed {
		return fmt.Sprintf("(- (mod (+ %s %s) %s) %s)", r, pow2(bits-1), pow2(bits), pow2(bits-1))
	}
	return fmt.Sprintf("(mod %s %s)", r, pow2(bits))
}

func (x *X) wrapMod(r string, t types.Type) string {
	bits, signed := intInfo(t)
	if signed {
		return fmt.Sprintf("(- (mod (+ %s %s) %s) %s)", r, pow2(bits-1), pow2(bits), pow2(bits-1))
	}
	return fmt.Sprintf("(mod %s %s)", r, pow2(bits))
}

func constInt(v ssa.Value) (int64, bool) {
	c, ok := v.(*ssa.Const)
	if !ok || c.Value == nil || c.Value.Kind() != constant.Int {
		return 0, false
	}
	return constant.Int64Val(c.Value)
}

func (x *X) binop(fr *frame, in *ssa.BinOp) Val {
	a, b := x.get(fr, in.X), x.get(fr, in.Y)
	t := in.X.Type()
	switch in.Op {
	case token.EQL:
		return S{x.equal(a, b, in.X, in.Y), SBool}
	case token.NEQ:
		return S{not(x.equal(a, b, in.X, in.Y)), SBool}
	}
	switch kindOf(t) {
	case kInt:
		at, bt := a.(S).T, b.(S).T
		switch in.Op {
		case token.LSS:
			return S{"(< " + at + " " + bt + ")", SBool}
		case token.LEQ:
			return S{"(<= " + at + " " + bt + ")", SBool}
		case token.GTR:
			return S{"(> " + at + " " + bt + ")", SBool}
		case token.GEQ:
			return S{"(>= " + at + " " + bt + ")", SBool}
		case token.ADD:
			return S{x.wrapInt("(+ "+at+" "+bt+")", t), SInt}
		case token.SUB:
			return S{x.wrapInt("(- "+at+" "+bt+")", t), SInt}
		case token.MUL:
			return S{x.wrapMod("(* "+at+" "+bt+")", t), SInt}
		case token.QUO, token.REM:
			x.oblige("div", x.site(in.Pos(), "division"), in.Pos(), "(not (= "+bt+" 0))")
			q := x.define("q", SInt, fmt.Sprintf("(ite (>= %s 0) (div %s %s) (- (div (- %s) %s)))", at, at, bt, at, bt))
			if in.Op == token.QUO {
				return S{x.wrapInt(q, t), SInt}
			}
			return S{fmt.Sprintf("(- %s (* %s %s))", at, bt, q), SInt}
		case token.SHL:
			if c, ok := constInt(in.Y); ok && c >= 0 && c < 64 {
				return S{x.wrapMod(fmt.Sprintf("(* %s %d)", at, uint64(1)<<uint(c)), t), SInt}
			}
		case token.SHR:
			if c, ok := constInt(in.Y); ok && c >= 0 && c < 63 {
				return S{fmt.Sprintf("(div %s %d)", at, uint64(1)<<uint(c)), SInt}
			}
		case token.AND:
			if c, ok := constInt(in.Y); ok && c > 0 && (c&(c+1)) == 0 {
				if _, signed := intInfo(t); !signed {
					return S{fmt.Sprintf("(mod %s %d)", at, c+1), SInt}
				}
			}
			if c, ok := constInt(in.Y); ok && c > 0 && (c&(c-1)) == 0 {
				if _, signed := intInfo(t); !signed {
					return S{fmt.Sprintf("(* %d (mod (div %s %d) 2))", c, at, c), SInt}
				}
			}
		case token.OR:
			// x | 2^k on unsigned values: add the bit when it is clear
			if c, ok := constInt(in.Y); ok && c > 0 && (c&(c-1)) == 0 {
				if _, signed := intInfo(t); !signed {
					return S{fmt.Sprintf("(ite (= (mod (div %s %d) 2) 1) %s (+ %s %d))", at, c, at, at, c), SInt}
				}
			}
			if c, ok := constInt(in.X); ok && c > 0 && (c&(c-1)) == 0 {
				if _, signed := intInfo(t); !signed {
					return S{fmt.Sprintf("(ite (= (mod (div %s %d) 2) 1) %s (+ %s %d))", bt, c, bt, bt, c), SInt}
				}
			}
		case token.AND_NOT:
			if c, ok := constInt(in.Y); ok && c > 0 && (c&(c-1)) == 0 {
				if _, signed := intInfo(t); !signed {
					return S{fmt.Sprintf("(ite (= (mod (div %s %d) 2) 1) (- %s %d) %s)", at, c, at, c, at), SInt}
				}
			}
		}
		if _, signed := intInfo(t); !signed {
			bits, _ := intInfo(t)
			switch in.Op {
			case token.AND, token.OR, token.XOR, token.AND_NOT:
				x.bvAxioms()
				fn := map[token.Token]string{token.AND: "bv.and", token.OR: "bv.or", token.XOR: "bv.xor", token.AND_NOT: "bv.andnot"}[in.Op]
				r := x.define("bvop", SInt, "("+fn+" "+at+" "+bt+")")
				x.assume(fmt.Sprintf("(and (<= 0 %s) (< %s %s))", r, r, pow2(bits)))
				return S{r, SInt}
			case token.SHL:
				if c, ok := constInt(in.X); ok && c == 1 {
					x.bvAxioms()
					return S{x.define("shl1", SInt, fmt.Sprintf("(ite (and (<= 0 %s) (< %s %d)) (bv.pow2 %s) 0)", bt, bt, bits, bt)), SInt}
				}
			}
		}
		unsup("integer operator %s in Int mode", in.Op)
	case kString:
		at, bt := a.(S).T, b.(S).T
		switch in.Op {
		case token.LSS:
			return S{"(< " + at + " " + bt + ")", SBool}
		case token.LEQ:
			return S{"(<= " + at + " " + bt + ")", SBool}
		case token.GTR:
			return S{"(> " + at + " " + bt + ")", SBool}
		case token.GEQ:
			return S{"(>= " + at + " " + bt + ")", SBool}
		case token.ADD:
			return S{x.strConcat(at, bt), SStr}
		}
	case kBool:
		at, bt := a.(S).T, b.(S).T
		switch in.Op {
		case token.AND, token.LAND:
			return S{and(at, bt), SBool}
		case token.OR, token.LOR:
			return S{or(at, bt), SBool}
		}
	}
	unsup("binary operator %s on %s", in.Op, t)
	return nil
}

func (x *X) strConcat(a, b string) string {
	x.sc.Declare("gs.concat", []string{SStr, SStr}, SStr)
	x.externs["string concatenation (length and bytes axioms only)"] = true
	r := x.define("cat", SStr, "(gs.concat "+a+" "+b+")")
	x.assume(fmt.Sprintf("(= (gs.len %s) (+ (gs.len %s) (gs.len %s)))", r, a, b))
	return r
}

// equal returns the term for a == b.
func (x *X) equal(a, b Val, av, bv ssa.Value) string {
	switch a := a.(type) {
	case S:
		return eq(a.T, b.(S).T)
	case Ptr:
		bp := b.(Ptr)
		if a.Kind == pObj && bp.Kind == pObj && len(a.Path) == 0 && len(bp.Path) == 0 {
			return eq(a.Obj, bp.Obj)
		}
		if isNilPtr(a) && bp.Kind != pObj || isNilPtr(bp) && a.Kind != pObj {
			return "false"
		}
		if isNilPtr(bp) && a.Kind == pObj {
			return "false" // interior pointer of a non-nil object (FieldAddr already required non-nil)
		}
		unsup("comparison of interior pointers")
	case MapV:
		return eq(a.Ref, b.(MapV).Ref)
	case Slice:
		// only comparison with nil is legal Go
		bs := b.(Slice)
		if isNilConst(bv) {
			return x.sliceIsNil(a)
		}
		if isNilConst(av) {
			return x.sliceIsNil(bs)
		}
	case Iface:
		bi := b.(Iface)
		if isNilConst(bv) {
			return eq(a.Tag, "0")
		}
		if isNilConst(av) {
			return eq(bi.Tag, "0")
		}
		x.externs["interface equality compares dynamic type and payload identity"] = true
		return and(eq(a.Tag, bi.Tag), eq(a.Ref, bi.Ref))
	case Tup:
		bt := b.(Tup)
		var cs []string
		for i := range a.E {
			cs = append(cs, x.equal(a.E[i], bt.E[i], nil, nil))
		}
		return and(cs...)
	case Clo:
		if isNilConst(bv) {
			if a.Fn == nil {
				return "true"
			}
			return "false"
		}
	}
	unsup("comparison of %T values", a)
	return ""
}

func isNilConst(v ssa.Value) bool {
	c, ok := v.(*ssa.Const)
	return ok && c.Value == nil
}

// A nil slice has a nil array; slices of real arrays never do.
func (x *X) sliceIsNil(s Slice) string { return eq(s.Arr, "0") }

func (x *X) convert(v Val, from, to types.Type) Val {
	fk, tk := kindOf(from), kindOf(to)
	switch {
	case fk == kInt && tk == kInt:
		fb, fs := intInfo(from)
		tb, ts := intInfo(to)
		s := v.(S)
		if (fs == ts && tb >= fb) || (!fs && ts && tb > fb) {
			return s
		}
		if fb == 64 && tb == 64 {
			// sign reinterpretation
			if ts {
				return S{fmt.Sprintf("(ite (> %s 9223372036854775807) (- %s 18446744073709551616) %s)", s.T, s.T, s.T), SInt}
			}
			return S{fmt.Sprintf("(ite (< %s 0) (+ %s 18446744073709551616) %s)", s.T, s.T, s.T), SInt}
		}
		return S{x.wrapMod(s.T, to), SInt}
	case fk == tk && (fk == kString || fk == kBool || fk == kPointer || fk == kSlice || fk == kMap || fk == kStruct):
		return v
	case fk == kInt && tk == kString:
		x.sc.Declare("gs.ofrune", []string{SInt}, SStr)
		return S{"(gs.ofrune " + v.(S).T + ")", SStr}
	case fk == kString && tk == kSlice:
		// []byte(s) / []rune(s): fresh array with the bytes of s (bytes only)
		el := to.Underlying().(*types.Slice).Elem()
		if b, ok := el.Underlying().(*types.Basic); ok && b.Kind() == types.Uint8 {
			arr := x.newRef("bytes")
			n := "(gs.len " + v.(S).T + ")"
			l := elemLoc(el, arr, "0")
			h := x.heapCur(l.key, arr2Sort(SInt))
			row := x.fresh("row", arrSort(SInt))
			x.assume(fmt.Sprintf("(forall ((i Int)) (! (=> (and (<= 0 i) (< i %s)) (= (select %s i) (gs.at %s i))) :pattern ((select %s i))))", n, row, v.(S).T, row))
			x.st.heap[l.key] = x.define("h."+l.key, arr2Sort(SInt), fmt.Sprintf("(store %s %s %s)", h, arr, row))
			x.touched[l.key], x.written[l.key] = true, true
			return Slice{arr, "0", n, n}
		}
	case fk == kSlice && tk == kString:
		x.externs["string([]byte) is an unconstrained string of the same length"] = true
		s := v.(Slice)
		r := x.fresh("str", SStr)
		x.assume(fmt.Sprintf("(= (gs.len %s) %s)", r, s.Len))
		return S{r, SStr}
	}
	unsup("conversion %s -> %s", from, to)
	return nil
}

func (x *X) instr(fr *frame, b *ssa.BasicBlock, in ssa.Instruction, only map[int]bool) {
	if x.mode == modeVC && len(x.stack) == 1 && x.siteAsserts != nil {
		x.fireSiteAsserts(fr, in)
	}
	switch in := in.(type) {
	case *ssa.DebugRef:
		if name := debugName(in); name != "" {
			if fr.names == nil {
				fr.names = map[string]func() TV{}
			}
			if v, ok := fr.vals[in.X]; ok || isConst(in.X) {
				if !ok {
					func() {
						defer func() { recover() }()
						v = x.get(fr, in.X)
					}()
				}
				if v != nil {
					val, t := v, in.X.Type()
					if in.IsAddr {
						if p, isPtr := val.(Ptr); isPtr {
							et := t.Underlying().(*types.Pointer).Elem()
							fr.names[name] = func() TV { return TV{x.load(p), et} }
						}
					} else {
						fr.names[name] = func() TV { return TV{val, t} }
					}
				}
			}
		}
	case *ssa.BinOp:
		fr.vals[in] = x.nameVal(in.Name(), x.binop(fr, in))
	case *ssa.UnOp:
		fr.vals[in] = x.unop(fr, in)
	case *ssa.Alloc:
		x.alloc(fr, in)
	case *ssa.FieldAddr:
		p, ok := x.get(fr, in.X).(Ptr)
		if !ok {
			unsup("FieldAddr on %T", x.get(fr, in.X))
		}
		if p.Kind == pObj && len(p.Path) == 0 {
			x.oblige("nil", x.site(in.Pos(), in.String()), in.Pos(), "(not (= "+p.Obj+" 0))")
		}
		if p.Root == nil {
			p.Root = in.X.Type().Underlying().(*types.Pointer).Elem()
		}
		np := p
		np.Path = append(append([]int(nil), p.Path...), in.Field)
		fr.vals[in] = np
	case *ssa.Field:
		fr.vals[in] = x.get(fr, in.X).(Tup).E[in.Field]
	case *ssa.IndexAddr:
		fr.vals[in] = x.indexAddr(fr, in)
	case *ssa.Index:
		xv := x.get(fr, in.X)
		iv := x.get(fr, in.Index).(S).T
		switch kindOf(in.X.Type()) {
		case kString:
			s := xv.(S).T
			x.oblige("index", x.site(in.Pos(), in.String()), in.Pos(), fmt.Sprintf("(and (<= 0 %s) (< %s (gs.len %s)))", iv, iv, s))
			fr.vals[in] = S{x.define(in.Name(), SInt, "(gs.at "+s+" "+iv+")"), SInt}
		case kArray:
			at := in.X.Type().Underlying().(*types.Array)
			x.oblige("index", x.site(in.Pos(), in.String()), in.Pos(), fmt.Sprintf("(and (<= 0 %s) (< %s %d))", iv, iv, at.Len()))
			fr.vals[in] = S{"(select " + xv.(S).T + " " + iv + ")", x.leafSort(at.Elem())}
		default:
			unsup("Index on %s", in.X.Type())
		}
	case *ssa.Lookup:
		fr.vals[in] = x.lookup(fr, in)
	case *ssa.Slice:
		fr.vals[in] = x.sliceOp(fr, in)
	case *ssa.Store:
		p, ok := x.get(fr, in.Addr).(Ptr)
		if !ok {
			unsup("store through %T", x.get(fr, in.Addr))
		}
		x.checkDeref(p, in.Pos(), in)
		x.store(p, x.get(fr, in.Val))
	case *ssa.Phi:
	case *ssa.Extract:
		fr.vals[in] = x.get(fr, in.Tuple).(Tup).E[in.Index]
	case *ssa.Convert:
		fr.vals[in] = x.nameVal(in.Name(), x.convert(x.get(fr, in.X), in.X.Type(), in.Type()))
	case *ssa.ChangeType:
		fr.vals[in] = x.get(fr, in.X)
	case *ssa.ChangeInterface:
		fr.vals[in] = x.get(fr, in.X)
	case *ssa.MakeInterface:
		fr.vals[in] = x.makeInterface(x.get(fr, in.X), in.X.Type())
	case *ssa.TypeAssert:
		fr.vals[in] = x.typeAssert(fr, in)
	case *ssa.MakeClosure:
		c := Clo{Fn: in.Fn.(*ssa.Function)}
		for _, bnd := range in.Bindings {
			c.Free = append(c.Free, x.get(fr, bnd))
		}
		fr.vals[in] = c
	case *ssa.MakeMap:
		fr.vals[in] = x.makeMap(in.Type())
	case *ssa.MakeSlice:
		fr.vals[in] = x.makeSlice(fr, in)
	case *ssa.MapUpdate:
		x.mapUpdate(fr, in)
	case *ssa.Call:
		fr.vals[in] = x.call(fr, in, &in.Call)
	case *ssa.Defer:
		if isUnlock(&in.Call) {
			break
		}
		unsup("defer of %s", in.Call.Value.Name())
	case *ssa.RunDefers:
	case *ssa.If:
		c := x.get(fr, in.Cond).(S).T
		c = x.define("c", SBool, c)
		if x.prune && x.st.cond != "false" {
			x.externs["branches ruled out by the assumptions are dropped after an unsat answer of z3 5.1.0 (pruning) in "+x.curFn] = true
			// a function under contract: branches its precondition rules out are not followed
			// both sides are put to the solver at the same time
			var deadT, deadF bool
			var wg sync.WaitGroup
			wg.Add(2)
			go func() { defer wg.Done(); deadT = x.unreachable(and(x.st.cond, c)) }()
			go func() { defer wg.Done(); deadF = x.unreachable(and(x.st.cond, not(c))) }()
			wg.Wait()
			switch {
			case deadT:
				x.pruned++
				x.pushEdge(fr, b, b.Succs[0], "false", only)
				x.pushEdge(fr, b, b.Succs[1], "true", only)
				return
			case deadF:
				x.pruned++
				x.pushEdge(fr, b, b.Succs[0], "true", only)
				x.pushEdge(fr, b, b.Succs[1], "false", only)
				return
			}
		}
		x.pushEdge(fr, b, b.Succs[0], c, only)
		x.pushEdge(fr, b, b.Succs[1], not(c), only)
	case *ssa.Jump:
		x.pushEdge(fr, b, b.Succs[0], "true", only)
	case *ssa.Return:
		var v Val
		switch len(in.Results) {
		case 0:
			v = Tup{}
		case 1:
			v = x.get(fr, in.Results[0])
		default:
			tv := Tup{}
			for _, r := range in.Results {
				tv.E = append(tv.E, x.get(fr, r))
			}
			v = tv
		}
		if x.retHook != nil && len(x.stack) == 1 && x.st.cond != "false" {
			// postconditions are checked on each return path (path-sensitive heap versions)
			x.retHook(v)
		}
		fr.rets = append(fr.rets, retEdge{st: x.st.clone(), val: v})
	case *ssa.Panic:
		if x.mode == modeVC {
			x.oblige("panic", x.site(in.Pos(), "panic"), in.Pos(), "false")
		}
	case *ssa.Range:
		fr.vals[in] = x.rangeInit(fr, in)
	case *ssa.Next:
		fr.vals[in] = x.rangeNext(fr, in)
	default:
		unsup("instruction %T (%s)", in, in)
	}
}

func isUnlock(c *ssa.CallCommon) bool {
	if f := c.StaticCallee(); f != nil {
		n := f.String()
		return strings.HasPrefix(n, "(*sync.Mutex).Unlock") || strings.HasPrefix(n, "(*sync.RWMutex).RUnlock") || strings.HasPrefix(n, "(*sync.RWMutex).Unlock")
	}
	return false
}

func (x *X) checkDeref(p Ptr, pos token.Pos, in ssa.Instruction) {
	if p.Kind == pObj && len(p.Path) == 0 {
		x.oblige("nil", x.site(pos, in.String()), pos, "(not (= "+p.Obj+" 0))")
	}
}

func (x *X) unop(fr *frame, in *ssa.UnOp) Val {
	v := x.get(fr, in.X)
	switch in.Op {
	case token.NOT:
		return S{not(v.(S).T), SBool}
	case token.SUB:
		if kindOf(in.Type()) == kInt {
			return S{x.wrapInt("(- "+v.(S).T+")", in.Type()), SInt}
		}
	case token.XOR:
		if kindOf(in.Type()) == kInt {
			_, signed := intInfo(in.Type())
			if signed {
				return S{"(- (- " + v.(S).T + ") 1)", SInt}
			}
			_, hi := intBounds(in.Type())
			return S{"(- " + hi + " " + v.(S).T + ")", SInt}
		}
	case token.MUL:
		p, ok := v.(Ptr)
		if !ok {
			unsup("load through %T", v)
		}
		x.checkDeref(p, in.Pos(), in)
		return x.nameVal(in.Name(), x.load(p))
	}
	unsup("unary operator %s on %s", in.Op, in.X.Type())
	return nil
}

func (x *X) alloc(fr *frame, in *ssa.Alloc) {
	t := in.Type().(*types.Pointer).Elem()
	if !in.Heap {
		x.cellN++
		c := &Cell{id: x.cellN, name: in.Comment, typ: t}
		x.st.cells[c] = x.zero(t)
		fr.cells[in] = c
		fr.vals[in] = Ptr{Kind: pCell, Cell: c, Root: t}
		return
	}
	// Escaping allocation: a fresh heap object, zero-initialised.
	if x.mode == modeSummary && x.sc.paramName != "" {
		unsup("heap allocation inside a summarised loop")
	}
	r := x.newRef(in.Comment)
	p := Ptr{Kind: pObj, Obj: r, Root: t}
	if _, isArr := t.Underlying().(*types.Array); isArr {
		at := t.Underlying().(*types.Array)
		x.zeroRow(at.Elem(), r)
	} else {
		x.storeAt(objLoc(t, r), t, x.zero(t))
	}
	if isBufferType(t) {
		lenL, _ := bufLoc(r)
		x.writeLeaf(lenL, "", SInt, "0")
	}
	fr.vals[in] = p
}

// zeroRow sets every element of array arr (element type el) to zero.
func (x *X) zeroRow(el types.Type, arr string) {
	x.forLeaves(el, "", func(suffix, sort, zero string) {
		key := "E:" + typeKey(el) + suffix
		x.touched[key], x.written[key] = true, true
		h := x.heapCur(key, arr2Sort(sort))
		x.st.heap[key] = x.define("h."+key, arr2Sort(sort), fmt.Sprintf("(store %s %s ((as const %s) %s))", h, arr, arrSort(sort), zero))
	})
}

// forLeaves enumerates the scalar heap leaves of type t.
func (x *X) forLeaves(t types.Type, prefix string, f func(suffix, sort, zero string)) {
	switch kindOf(t) {
	case kBool:
		f(prefix, SBool, "false")
	case kInt, kPointer, kMap:
		f(prefix, SInt, "0")
	case kString:
		f(prefix, SStr, "0.0")
	case kFloat:
		f(prefix, SReal, "0.0")
	case kSlice:
		for _, s := range []string{"#arr", "#off", "#len", "#cap"} {
			f(prefix+s, SInt, "0")
		}
	case kIface:
		f(prefix+"#tag", SInt, "0")
		f(prefix+"#ref", SInt, "0")
	case kStruct:
		st := t.Underlying().(*types.Struct)
		for i := 0; i < st.NumFields(); i++ {
			x.forLeaves(st.Field(i).Type(), prefix+"."+st.Field(i).Name(), f)
		}
	case kFunc:
		// function values are not stored in the modelled heap (loading one is outside the subset)
	case kArray:
		at := t.Underlying().(*types.Array)
		x.forLeaves(at.Elem(), prefix, f)
	default:
		unsup("heap leaves of %s", t)
	}
}

func (x *X) indexAddr(fr *frame, in *ssa.IndexAddr) Val {
	xv := x.get(fr, in.X)
	iv := x.get(fr, in.Index).(S).T
	switch v := xv.(type) {
	case Slice:
		el := in.X.Type().Underlying().(*types.Slice).Elem()
		x.addPoint(iv, "idx")
		x.oblige("index", x.site(in.Pos(), in.String()), in.Pos(), fmt.Sprintf("(and (<= 0 %s) (< %s %s))", iv, iv, v.Len))
		return Ptr{Kind: pElem, Arr: v.Arr, Idx: x.define("ix", SInt, "(+ "+v.Off+" "+iv+")"), Root: el}
	case Ptr:
		at, ok := in.X.Type().Underlying().(*types.Pointer).Elem().Underlying().(*types.Array)
		if !ok {
			unsup("IndexAddr on pointer to %s", in.X.Type())
		}
		x.oblige("index", x.site(in.Pos(), in.String()), in.Pos(), fmt.Sprintf("(and (<= 0 %s) (< %s %d))", iv, iv, at.Len()))
		if v.Kind == pCell {
			unsup("indexing a local array")
		}
		l, _ := x.locOf(v)
		return Ptr{Kind: pElem, Arr: x.interiorArr(l), Idx: iv, Root: at.Elem()}
	}
	unsup("IndexAddr on %T", xv)
	return nil
}

func (x *X) sliceOp(fr *frame, in *ssa.Slice) Val {
	xv := x.get(fr, in.X)
	opt := func(v ssa.Value, def string) string {
		if v == nil {
			return def
		}
		return x.get(fr, v).(S).T
	}
	site := x.site(in.Pos(), in.String())
	switch v := xv.(type) {
	case S: // string
		n := "(gs.len " + v.T + ")"
		lo, hi := opt(in.Low, "0"), opt(in.High, n)
		x.oblige("slice", site, in.Pos(), fmt.Sprintf("(and (<= 0 %s) (<= %s %s) (<= %s %s))", lo, lo, hi, hi, n))
		return S{x.strSub(v.T, lo, hi), SStr}
	case Slice:
		lo, hi := opt(in.Low, "0"), opt(in.High, v.Len)
		mx := opt(in.Max, v.Cap)
		x.oblige("slice", site, in.Pos(), fmt.Sprintf("(and (<= 0 %s) (<= %s %s) (<= %s %s) (<= %s %s))", lo, lo, hi, hi, mx, mx, v.Cap))
		return x.nameVal(in.Name(), Slice{v.Arr, "(+ " + v.Off + " " + lo + ")", "(- " + hi + " " + lo + ")", "(- " + mx + " " + lo + ")"})
	case Ptr:
		at, ok := in.X.Type().Underlying().(*types.Pointer).Elem().Underlying().(*types.Array)
		if !ok {
			unsup("slice of pointer to %s", in.X.Type())
		}
		if v.Kind == pCell {
			unsup("slicing a local array")
		}
		x.checkDeref(v, in.Pos(), in)
		n := fmt.Sprint(at.Len())
		lo, hi := opt(in.Low, "0"), opt(in.High, n)
		mx := opt(in.Max, n)
		x.oblige("slice", site, in.Pos(), fmt.Sprintf("(and (<= 0 %s) (<= %s %s) (<= %s %s) (<= %s %s))", lo, lo, hi, hi, mx, mx, n))
		l, _ := x.locOf(v)
		return x.nameVal(in.Name(), Slice{x.interiorArr(l), lo, "(- " + hi + " " + lo + ")", "(- " + mx + " " + lo + ")"})
	}
	unsup("slice of %T", xv)
	return nil
}

func (x *X) strSub(s, lo, hi string) string {
	x.sc.Declare("gs.sub", []string{SStr, SInt, SInt}, SStr)
	if _, ok := x.externs["substring"]; !ok {
		x.externs["substring"] = true
		x.sc.Assert("(forall ((s Real) (a Int) (b Int)) (! (=> (and (<= 0 a) (<= a b) (<= b (gs.len s))) (= (gs.len (gs.sub s a b)) (- b a))) :pattern ((gs.sub s a b))))")
		x.sc.Assert("(forall ((s Real) (a Int) (b Int) (i Int)) (! (=> (and (<= 0 a) (<= a b) (<= b (gs.len s)) (<= 0 i) (< i (- b a))) (= (gs.at (gs.sub s a b) i) (gs.at s (+ a i)))) :pattern ((gs.at (gs.sub s a b) i))))")
		x.sc.Assert("(forall ((s Real)) (! (= (gs.sub s 0 (gs.len s)) s) :pattern ((gs.sub s 0 (gs.len s)))))")
	}
	if lo == "0" && hi == "(gs.len "+s+")" {
		return s
	}
	r := x.define("sub", SStr, fmt.Sprintf("(gs.sub %s %s %s)", s, lo, hi))
	x.assumeStr(r)
	x.assume(fmt.Sprintf("(=> (and (<= 0 %s) (<= %s %s) (<= %s (gs.len %s))) (= (gs.len %s) (- %s %s)))", lo, lo, hi, hi, s, r, hi, lo))
	x.assume(fmt.Sprintf("(=> (and (= 0 %s) (= %s (gs.len %s))) (= %s %s))", lo, hi, s, r, s))
	x.assume(fmt.Sprintf("(=> (and (<= 0 %s) (< %s %s) (<= %s (gs.len %s))) (= (gs.at %s 0) (gs.at %s %s)))", lo, lo, hi, hi, s, r, s, lo))
	return r
}

func (x *X) makeInterface(v Val, t types.Type) Val {
	tag := fmt.Sprint(x.tags.tagOf(t))
	if p, ok := v.(Ptr); ok {
		if p.Kind == pObj && len(p.Path) == 0 {
			return Iface{tag, p.Obj}
		}
		unsup("interior pointer stored in interface")
	}
	if m, ok := v.(MapV); ok {
		return Iface{tag, m.Ref}
	}
	if _, ok := v.(Clo); ok {
		return Iface{tag, x.fresh("fnbox", SInt)}
	}
	// box the value
	if x.sc.paramName != "" {
		unsup("boxing inside a summarised loop")
	}
	r := x.newRef("box")
	x.storeAt(loc{key: "B:" + typeKey(t), idx: []string{r}}, t, v)
	return Iface{tag, r}
}

func (x *X) typeAssert(fr *frame, in *ssa.TypeAssert) Val {
	iv := x.get(fr, in.X).(Iface)
	if kindOf(in.AssertedType) == kIface {
		// interface-to-interface: succeeds iff non-nil and the dynamic type implements it
		it := in.AssertedType.Underlying().(*types.Interface)
		var okc []string
		for _, id := range x.tags.sortedTags() {
			if types.Implements(x.tags.types[id], it) {
				okc = append(okc, eq(iv.Tag, fmt.Sprint(id)))
			}
		}
		if it.NumMethods() == 0 {
			okc = []string{not(eq(iv.Tag, "0"))}
		} else {
			unk := x.fresh("implements", SBool)
			okc = append(okc, and(not(eq(iv.Tag, "0")), unk))
		}
		ok := or(okc...)
		if in.CommaOk {
			return Tup{E: []Val{x.mergeVals(ok, iv, Iface{"0", "0"}), S{ok, SBool}}}
		}
		x.oblige("typeassert", x.site(in.Pos(), in.String()), in.Pos(), ok)
		return iv
	}
	tag := fmt.Sprint(x.tags.tagOf(in.AssertedType))
	ok := eq(iv.Tag, tag)
	var val Val
	switch kindOf(in.AssertedType) {
	case kPointer:
		val = Ptr{Kind: pObj, Obj: iv.Ref, Root: in.AssertedType.Underlying().(*types.Pointer).Elem()}
	case kMap:
		val = MapV{iv.Ref}
	default:
		save := x.st.cond
		val = x.loadAt(loc{key: "B:" + typeKey(in.AssertedType), idx: []string{iv.Ref}}, in.AssertedType)
		x.st.cond = save
	}
	if in.CommaOk {
		return Tup{E: []Val{x.mergeVals(ok, val, x.zero(in.AssertedType)), S{ok, SBool}}}
	}
	x.oblige("typeassert", x.site(in.Pos(), in.String()), in.Pos(), ok)
	return val
}

// ---- maps ----

func (x *X) mapLoc(mt *types.Map, ref string, key Val) loc {
	ks := x.flatten(key)
	l := loc{key: "M:" + typeKey(mt), idx: []string{ref}, idxSorts: []string{SInt}}
	if len(ks) == 1 {
		l.idx = append(l.idx, ks[0].T)
		l.idxSorts = append(l.idxSorts, ks[0].Sort)
		return l
	}
	// composite keys are numbered by an injective function (injectivity through projections)
	fn := "mkkey." + sanitize(typeKey(mt.Key()))
	if _, ok := x.sc.declared[fn]; !ok {
		var sorts, vars, decls []string
		for i, k := range ks {
			sorts = append(sorts, k.Sort)
			vars = append(vars, fmt.Sprintf("k%d", i))
			decls = append(decls, fmt.Sprintf("(k%d %s)", i, k.Sort))
		}
		x.sc.Declare(fn, sorts, SInt)
		app := "(" + fn + " " + strings.Join(vars, " ") + ")"
		for i, k := range ks {
			pr := fmt.Sprintf("%s.p%d", fn, i)
			x.sc.Declare(pr, []string{SInt}, k.Sort)
			x.sc.Assert(fmt.Sprintf("(forall (%s) (! (= (%s %s) k%d) :pattern (%s)))", strings.Join(decls, " "), pr, app, i, app))
		}
	}
	var args []string
	for _, k := range ks {
		args = append(args, k.T)
	}
	kid := "(" + fn + " " + strings.Join(args, " ") + ")"
	if !x.inline && !(x.sc.paramName != "" && strings.Contains(kid, x.sc.paramName)) {
		kid = x.define("key", SInt, kid)
	}
	l.idx = append(l.idx, kid)
	l.idxSorts = append(l.idxSorts, SInt)
	return l
}

func (x *X) mapHas(mt *types.Map, ref string, key Val) string {
	l := x.mapLoc(mt, ref, key)
	hk := l.key + "#mhas"
	if _, ok := x.heapSorts[hk]; !ok {
		// first use: the nil map has no keys
		h := x.heapCur(hk, heapSortFor(l, SBool))
		inner := "false"
		for i := len(l.idxSorts) - 1; i >= 1; i-- {
			srt := SBool
			for j := len(l.idxSorts) - 1; j >= i; j-- {
				srt = "(Array " + l.idxSorts[j] + " " + srt + ")"
			}
			inner = fmt.Sprintf("((as const %s) %s)", srt, inner)
		}
		x.sc.Assert(fmt.Sprintf("(= (select %s 0) %s)", h, inner))
	}
	return x.readLeaf(l, "#mhas", SBool)
}

func (x *X) mapLen(mt *types.Map, ref string) string {
	l := loc{key: "M:" + typeKey(mt), idx: []string{ref}}
	hk := l.key + "#mlen"
	if _, ok := x.heapSorts[hk]; !ok {
		h := x.heapCur(hk, arrSort(SInt))
		x.sc.Assert(fmt.Sprintf("(= (select %s 0) 0)", h))
	}
	n := x.readLeaf(l, "#mlen", SInt)
	x.assume("(>= " + n + " 0)")
	return n
}

func (x *X) lookup(fr *frame, in *ssa.Lookup) Val {
	xv := x.get(fr, in.X)
	if kindOf(in.X.Type()) == kString {
		iv := x.get(fr, in.Index).(S).T
		s := xv.(S).T
		x.oblige("index", x.site(in.Pos(), in.String()), in.Pos(), fmt.Sprintf("(and (<= 0 %s) (< %s (gs.len %s)))", iv, iv, s))
		return S{"(gs.at " + s + " " + iv + ")", SInt}
	}
	mt := in.X.Type().Underlying().(*types.Map)
	m := xv.(MapV)
	key := x.get(fr, in.Index)
	if lit := x.globalMapLookup(fr, in, mt, key); lit != nil {
		return lit
	}
	has := x.define("has", SBool, x.mapHas(mt, m.Ref, key))
	l := x.mapLoc(mt, m.Ref, key)
	v := x.loadAt(l, mt.Elem())
	val := x.nameVal(in.Name(), x.mergeVals(has, v, x.zero(mt.Elem())))
	if in.CommaOk {
		return Tup{E: []Val{val, S{has, SBool}}}
	}
	return val
}

func (x *X) makeMap(t types.Type) Val {
	mt := t.Underlying().(*types.Map)
	r := x.newRef("map")
	// empty: no keys, length 0
	dummy := x.zero(mt.Key())
	l := x.mapLoc(mt, r, dummy)
	_ = x.mapHas(mt, r, dummy) // make sure the heap exists
	hk := l.key + "#mhas"
	srt := heapSortFor(l, SBool)
	inner := "false"
	for i := len(l.idxSorts) - 1; i >= 1; i-- {
		s2 := SBool
		for j := len(l.idxSorts) - 1; j >= i; j-- {
			s2 = "(Array " + l.idxSorts[j] + " " + s2 + ")"
		}
		inner = fmt.Sprintf("((as const %s) %s)", s2, inner)
	}
	h := x.heapCur(hk, srt)
	x.st.heap[hk] = x.define("h."+hk, srt, fmt.Sprintf("(store %s %s %s)", h, r, inner))
	x.written[hk] = true
	_ = x.mapLen(mt, r)
	x.writeLeaf(loc{key: "M:" + typeKey(mt), idx: []string{r}}, "#mlen", SInt, "0")
	return MapV{r}
}

func (x *X) mapUpdate(fr *frame, in *ssa.MapUpdate) {
	mt := in.Map.Type().Underlying().(*types.Map)
	m := x.get(fr, in.Map).(MapV)
	key := x.get(fr, in.Key)
	x.oblige("nilmap", x.site(in.Pos(), in.String()), in.Pos(), "(not (= "+m.Ref+" 0))")
	has := x.define("had", SBool, x.mapHas(mt, m.Ref, key))
	n := x.mapLen(mt, m.Ref)
	l := x.mapLoc(mt, m.Ref, key)
	x.storeAt(l, mt.Elem(), x.get(fr, in.Value))
	x.writeLeaf(l, "#mhas", SBool, "true")
	x.writeLeaf(loc{key: "M:" + typeKey(mt), idx: []string{m.Ref}}, "#mlen", SInt, fmt.Sprintf("(ite %s %s (+ %s 1))", has, n, n))
}

func (x *X) makeSlice(fr *frame, in *ssa.MakeSlice) Val {
	el := in.Type().Underlying().(*types.Slice).Elem()
	n := x.get(fr, in.Len).(S).T
	c := x.get(fr, in.Cap).(S).T
	x.oblige("makeslice", x.site(in.Pos(), in.String()), in.Pos(), fmt.Sprintf("(and (<= 0 %s) (<= %s %s))", n, n, c))
	arr := x.newRef("mk")
	x.zeroRow(el, arr)
	return Slice{arr, "0", n, c}
}

// ---- range over maps / strings (VC mode, see loop.go) ----

// Iter is the state of a range-over-string iteration: the byte position lives in a cell.
type Iter struct {
	Cell *Cell
	Str  string
	Map  string     // map iteration: reference of the map
	MapT *types.Map // map iteration: its type
}

func (x *X) rangeInit(fr *frame, in *ssa.Range) Val {
	if mt, ok := in.X.Type().Underlying().(*types.Map); ok {
		// range over a map: the order is arbitrary; a ghost set records the keys already visited
		if x.mode == modeSummary {
			unsup("range over map in a pure summary")
		}
		if k := kindOf(mt.Key()); k != kInt && k != kString && k != kBool {
			unsup("range over map with composite keys")
		}
		x.cellN++
		c := &Cell{id: x.cellN, name: "rangeseen", typ: mt}
		ks := x.leafSort(mt.Key())
		x.st.cells[c] = S{fmt.Sprintf("((as const (Array %s Bool)) false)", ks), "(Array " + ks + " Bool)"}
		if fr.iters == nil {
			fr.iters = map[*ssa.Range]Iter{}
		}
		it := Iter{Cell: c, Map: x.get(fr, in.X).(MapV).Ref, MapT: mt}
		fr.iters[in] = it
		return it
	}
	if kindOf(in.X.Type()) != kString {
		unsup("range over %s", in.X.Type())
	}
	if x.mode == modeSummary {
		unsup("range over string in a pure summary")
	}
	x.cellN++
	c := &Cell{id: x.cellN, name: "rangepos", typ: types.Typ[types.Int]}
	x.st.cells[c] = S{"0", SInt}
	if fr.iters == nil {
		fr.iters = map[*ssa.Range]Iter{}
	}
	it := Iter{Cell: c, Str: x.get(fr, in.X).(S).T}
	fr.iters[in] = it
	return it
}

// rangeNext: (ok, index, rune) of the next position; the width of a rune is
// 1 for ASCII and 1..4 otherwise, never running past the end.
func (x *X) rangeNext(fr *frame, in *ssa.Next) Val {
	it, ok := x.get(fr, in.Iter).(Iter)
	if ok && !in.IsString && it.MapT != nil {
		mt := it.MapT
		ks := x.leafSort(mt.Key())
		seen := x.st.cells[it.Cell].(S)
		k := x.freshVal(mt.Key(), "rangekey")
		kt := k.(S).T
		okT := x.fresh("rng.ok", SBool)
		has := x.mapHas(mt, it.Map, k)
		x.assume(implies(okT, and(has, not("(select "+seen.T+" "+kt+")"))))
		// when the iteration ends every key has been visited
		hk := x.mapLoc(mt, it.Map, k)
		hasArr := x.heapCur(hk.key+"#mhas", heapSortFor(hk, SBool))
		x.sc.Assert(implies(and(x.st.cond, not(okT)), fmt.Sprintf("(forall ((q %s)) (! (=> (select (select %s %s) q) (select %s q)) :pattern ((select %s q))))", ks, hasArr, it.Map, seen.T, seen.T)))
		v := x.loadAt(hk, mt.Elem())
		x.st.cells[it.Cell] = S{x.define("rng.seen", seen.Sort, ite(okT, "(store "+seen.T+" "+kt+" true)", seen.T)), seen.Sort}
		return Tup{E: []Val{S{okT, SBool}, k, v}}
	}
	if !ok || !in.IsString {
		unsup("range next over a map")
	}
	pos := x.st.cells[it.Cell].(S).T
	n := "(gs.len " + it.Str + ")"
	okT := x.define("rng.ok", SBool, "(< "+pos+" "+n+")")
	r := x.fresh("rune", SInt)
	w := x.fresh("width", SInt)
	b := "(gs.at " + it.Str + " " + pos + ")"
	x.assume(implies(okT, fmt.Sprintf("(and (<= 1 %s) (<= %s 4) (<= (+ %s %s) %s) (<= 0 %s) (<= %s 1114111))", w, w, pos, w, n, r, r)))
	x.assume(implies(and(okT, "(< "+b+" 128)"), fmt.Sprintf("(and (= %s %s) (= %s 1))", r, b, w)))
	x.assume(implies(and(okT, "(>= "+b+" 128)"), fmt.Sprintf("(>= %s 128)", r)))
	x.st.cells[it.Cell] = S{x.define("rng.pos", SInt, ite(okT, "(+ "+pos+" "+w+")", pos)), SInt}
	x.externs["range over string: rune decoding as utf8.DecodeRuneInString (ASCII exact, otherwise rune >= 0x80, width 1..4 within the string)"] = true
	return Tup{E: []Val{S{okT, SBool}, S{pos, SInt}, S{r, SInt}}}
}

// bvAxioms declares the bit-level view of non-negative integers used for
// bitmask code in Int mode: bv.bit(x,k) is bit k of x; and/or/xor/andnot are
// characterised bitwise; bv.pow2 is a single bit; extensionality and the
// lowest set bit (bv.tz) connect bits and numbers. These are facts about
// machine words assumed here, not proved (listed in the trusted base).
func (x *X) bvAxioms() {
	if x.externs["bit operations axiomatised over Int (bv.bit/and/or/xor/andnot/pow2/tz; extensionality on 64-bit words)"] {
		return
	}
	x.externs["bit operations axiomatised over Int (bv.bit/and/or/xor/andnot/pow2/tz; extensionality on 64-bit words)"] = true
	sc := x.sc
	sc.Declare("bv.bit", []string{SInt, SInt}, SBool)
	for _, f := range []string{"bv.and", "bv.or", "bv.xor", "bv.andnot"} {
		sc.Declare(f, []string{SInt, SInt}, SInt)
	}
	sc.Declare("bv.pow2", []string{SInt}, SInt)
	sc.Declare("bv.tz", []string{SInt}, SInt)
	sc.Declare("bv.diff", []string{SInt, SInt}, SInt)
	a := func(t string) { sc.Assert(t) }
	a("(forall ((x Int) (y Int) (k Int)) (! (= (bv.bit (bv.and x y) k) (and (bv.bit x k) (bv.bit y k))) :pattern ((bv.bit (bv.and x y) k))))")
	a("(forall ((x Int) (y Int) (k Int)) (! (= (bv.bit (bv.or x y) k) (or (bv.bit x k) (bv.bit y k))) :pattern ((bv.bit (bv.or x y) k))))")
	a("(forall ((x Int) (y Int) (k Int)) (! (= (bv.bit (bv.xor x y) k) (xor (bv.bit x k) (bv.bit y k))) :pattern ((bv.bit (bv.xor x y) k))))")
	a("(forall ((x Int) (y Int) (k Int)) (! (= (bv.bit (bv.andnot x y) k) (and (bv.bit x k) (not (bv.bit y k)))) :pattern ((bv.bit (bv.andnot x y) k))))")
	a("(forall ((x Int) (y Int)) (! (=> (and (<= 0 x) (<= 0 y)) (and (<= 0 (bv.and x y)) (<= (bv.and x y) x) (<= (bv.and x y) y))) :pattern ((bv.and x y))))")
	a("(forall ((x Int) (y Int)) (! (=> (and (<= 0 x) (<= 0 y)) (and (<= x (bv.or x y)) (<= y (bv.or x y)) (<= (bv.or x y) (+ x y)))) :pattern ((bv.or x y))))")
	a("(forall ((x Int) (y Int)) (! (=> (and (<= 0 x) (<= 0 y)) (and (<= 0 (bv.andnot x y)) (<= (bv.andnot x y) x))) :pattern ((bv.andnot x y))))")
	a("(forall ((x Int) (y Int)) (! (=> (and (<= 0 x) (<= 0 y)) (and (<= 0 (bv.xor x y)) (<= (bv.xor x y) (+ x y)))) :pattern ((bv.xor x y))))")
	// removing a set bit makes the number smaller; adding a clear bit makes it larger
	a("(forall ((x Int) (k Int)) (! (=> (and (<= 0 x) (<= 0 k) (< k 64) (bv.bit x k)) (= (bv.andnot x (bv.pow2 k)) (- x (bv.pow2 k)))) :pattern ((bv.andnot x (bv.pow2 k)))))")
	a("(forall ((x Int) (k Int)) (! (=> (and (<= 0 x) (<= 0 k) (< k 64)) (= (bv.or x (bv.pow2 k)) (ite (bv.bit x k) x (+ x (bv.pow2 k))))) :pattern ((bv.or x (bv.pow2 k)))))")
	a("(forall ((k Int)) (! (=> (and (<= 0 k) (< k 64)) (and (> (bv.pow2 k) 0) (<= (bv.pow2 k) 9223372036854775808))) :pattern ((bv.pow2 k))))")
	a("(forall ((k Int) (j Int)) (! (=> (and (<= 0 k) (< k 64)) (= (bv.bit (bv.pow2 k) j) (= j k))) :pattern ((bv.bit (bv.pow2 k) j))))")
	a("(forall ((k Int)) (! (=> (and (<= 0 k) (< k 8)) (<= (bv.pow2 k) 128)) :pattern ((bv.pow2 k))))")
	a("(forall ((k Int)) (! (not (bv.bit 0 k)) :pattern ((bv.bit 0 k))))")
	a("(forall ((x Int)) (! (=> (> x 0) (and (<= 0 (bv.tz x)) (< (bv.tz x) 64) (bv.bit x (bv.tz x)))) :pattern ((bv.tz x))))")
	a("(forall ((x Int) (j Int)) (! (=> (and (> x 0) (<= 0 j) (< j (bv.tz x))) (not (bv.bit x j))) :pattern ((bv.tz x) (bv.bit x j))))")
	// extensionality (instantiated where a specification mentions bv.diff)
	a("(forall ((x Int) (y Int)) (! (=> (and (<= 0 x) (<= 0 y) (< x 18446744073709551616) (< y 18446744073709551616) (not (= x y))) (and (<= 0 (bv.diff x y)) (< (bv.diff x y) 64) (not (= (bv.bit x (bv.diff x y)) (bv.bit y (bv.diff x y)))))) :pattern ((bv.diff x y))))")
}

// fireSiteAsserts emits the obligations of `assert at "text": expr` contract
// lines when execution reaches the first instruction of a source line
// containing the text. The expression sees the source-level names assigned so far.
func (x *X) fireSiteAsserts(fr *frame, in ssa.Instruction) {
	if _, isDbg := in.(*ssa.DebugRef); isDbg {
		return
	}
	if x.noOblig > 0 {
		return // a trial pass (loop peeling): the assertion belongs to the pass that counts
	}
	pos := in.Pos()
	if !pos.IsValid() {
		return
	}
	line := x.prog.lineText(pos)
	if line == "" {
		return
	}
	if os.Getenv("GOVC_SITEDEBUG") != "" {
		fmt.Fprintf(os.Stderr, "site %T %d: %s\n", in, x.prog.Fset.Position(pos).Line, strings.TrimSpace(line))
	}
	for i, sa := range x.siteAsserts {
		if strings.HasPrefix(sa.At, "=") {
			// "=text": the whole statement line (without indentation) is the text
			if strings.TrimSpace(line) != sa.At[1:] {
				continue
			}
		} else if !strings.Contains(line, sa.At) {
			continue
		}
		if sa.Ord > 0 && x.prog.lineOrdinal(fr.fn, pos, sa.At) != sa.Ord {
			continue
		}
		key := fmt.Sprintf("%d|%d", i, x.prog.Fset.Position(pos).Line)
		if fr.fired == nil {
			fr.fired = map[string]bool{}
		}
		if fr.fired[key] {
			continue
		}
		fr.fired[key] = true
		if x.firedAsserts == nil {
			x.firedAsserts = map[int]bool{}
		}
		x.firedAsserts[i] = true
		env := &Env{vars: map[string]TV{}, pkg: pkgOf(fr.fn), old: x.entryState}
		for _, p := range fr.fn.Params {
			if v, ok := fr.vals[p]; ok {
				env.vars[p.Name()] = TV{v, p.Type()}
			}
		}
		for _, fv := range fr.fn.FreeVars {
			if v, ok := fr.vals[fv]; ok {
				if p, isPtr := v.(Ptr); isPtr {
					func() {
						defer func() { recover() }()
						env.vars[fv.Name()] = TV{x.load(p), fv.Type().(*types.Pointer).Elem()}
					}()
				}
			}
		}
		for n, f := range fr.names {
			func() {
				defer func() { recover() }()
				env.vars[n] = f()
			}()
		}
		x.polarity = 1
		x.arbs = nil
		goal := x.evalBool(env, sa.Expr)
		at := fmt.Sprintf("%q", sa.At)
		if sa.Ord > 0 {
			at += fmt.Sprintf("#%d", sa.Ord)
		}
		x.oblige("assert", fmt.Sprintf("at %s: %s", at, sa.Expr), pos, goal)
	}
}

func isBufferType(t types.Type) bool {
	n, ok := t.(*types.Named)
	if !ok || n.Obj().Pkg() == nil {
		return false
	}
	q := n.Obj().Pkg().Path() + "." + n.Obj().Name()
	return q == "bytes.Buffer" || q == "strings.Builder"
}
