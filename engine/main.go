package main

import (
	"flag"
	"fmt"
	"hash/crc32"
	"os"
	"sort"
	"strings"
	"sync"

	"golang.org/x/tools/go/ssa"
)

func main() {
	defer cleanupScratch()
	if len(os.Args) < 2 {
		fmt.Fprintln(os.Stderr, "usage: govc check|lemmas|replay ...")
		os.Exit(2)
	}
	switch os.Args[1] {
	case "lemmas":
		fs := flag.NewFlagSet("lemmas", flag.ExitOnError)
		mod := fs.String("module", "util/semver", "module directory under the repository")
		pkgp := fs.String("pkg", "deps.dev/util/semver", "package path")
		only := fs.String("only", "", "lemma name")
		dump := fs.String("dump", "", "write failing queries to this directory")
		fs.Parse(os.Args[2:])
		code := cmdLemmas(*mod, *pkgp, *only, *dump)
		cleanupScratch()
		os.Exit(code)
	case "vc":
		fs := flag.NewFlagSet("vc", flag.ExitOnError)
		mod := fs.String("module", "util/semver", "module directory under the repository")
		pkgp := fs.String("pkg", "deps.dev/util/semver", "package path")
		fnn := fs.String("func", "", "function name (pkg.Func, pkg.(*T).M); empty = all in package")
		dump := fs.String("dump", "", "write failing queries to this directory")
		fs.Parse(os.Args[2:])
		code := cmdVC(*mod, *pkgp, *fnn, *dump)
		cleanupScratch()
		os.Exit(code)
	case "check", "baseline":
		fs := flag.NewFlagSet("check", flag.ExitOnError)
		prop := fs.String("property", "", "property id")
		tier := fs.String("tier", "quick", "quick or thorough")
		fs.Parse(os.Args[2:])
		if t := os.Getenv("VERIF_TIER"); t != "" && *tier == "" {
			*tier = t
		}
		code := cmdCheck(*prop, *tier, os.Args[1] == "baseline")
		cleanupScratch()
		os.Exit(code)
	case "replay":
		code := cmdReplay(os.Args[2])
		cleanupScratch()
		os.Exit(code)
	default:
		fmt.Fprintln(os.Stderr, "unknown command", os.Args[1])
		os.Exit(2)
	}
}

func cmdLemmas(mod, pkgPath, only, dump string) int {
	prog, err := LoadModule(mod)
	if err != nil {
		fmt.Fprintln(os.Stderr, err)
		return 2
	}
	pp := prog.PPkgs[pkgPath]
	if pp == nil {
		fmt.Fprintln(os.Stderr, "no package", pkgPath)
		return 2
	}
	specs, err := LoadSpecsFor(prog, mod, pkgPath)
	if err != nil {
		fmt.Fprintln(os.Stderr, err)
		return 2
	}
	var all []OblResult
	var mu sync.Mutex
	var wg sync.WaitGroup
	sem := make(chan struct{}, 4)
	for _, l := range specs.Lemmas {
		if only != "" && l.Name != only {
			continue
		}
		wg.Add(1)
		go func(l *Lemma) {
			defer wg.Done()
			sem <- struct{}{}
			defer func() { <-sem }()
			rs := ProveLemma(prog, specs, l, "quick")
			mu.Lock()
			all = append(all, rs...)
			mu.Unlock()
		}(l)
	}
	wg.Wait()
	sort.Slice(all, func(i, j int) bool { return all[i].Name < all[j].Name })
	bad := 0
	for _, r := range all {
		fmt.Printf("%-10s %-60s %6.2fs %s %s\n", r.Status, r.Name, r.Secs, r.Solver, r.Detail)
		if r.Status != "proved" || os.Getenv("GOVC_DUMPALL") != "" {
			bad++
			if dump != "" && r.Query != "" {
				os.MkdirAll(dump, 0o755)
				os.WriteFile(dump+"/"+sanitize(r.Name)+".smt2", []byte(r.Query+"(check-sat)\n(get-model)\n"), 0o644)
			}
		}
	}
	if bad > 0 {
		return 1
	}
	return 0
}

// relDir maps a package path to its directory relative to the module dir.
func relDir(mod, pkgPath string) string {
	// module path is deps.dev/<mod>
	prefix := "deps.dev/" + mod
	if len(pkgPath) > len(prefix) {
		return pkgPath[len(prefix)+1:]
	}
	return "."
}

func cmdVC(mod, pkgPath, fnName, dump string) int {
	prog, err := LoadModule(mod)
	if err != nil {
		fmt.Fprintln(os.Stderr, err)
		return 2
	}
	specs, err := LoadSpecsFor(prog, mod, pkgPath)
	if err != nil {
		fmt.Fprintln(os.Stderr, err)
		return 2
	}
	variant := ""
	if i := strings.Index(fnName, "~"); i >= 0 {
		fnName, variant = fnName[:i], fnName[i+1:]
	}
	var fns []*ssa.Function
	if fnName != "" {
		f := prog.Func(fnName)
		if f == nil {
			fmt.Fprintln(os.Stderr, "no function", fnName)
			return 2
		}
		fns = []*ssa.Function{f}
	} else {
		fns = prog.FuncsOfPackage(pkgPath)
	}
	var all []OblResult
	var mu sync.Mutex
	var wg sync.WaitGroup
	sem := make(chan struct{}, 6)
	for _, f := range fns {
		wg.Add(1)
		go func(f *ssa.Function) {
			defer wg.Done()
			sem <- struct{}{}
			defer func() { <-sem }()
			rs := verifyFuncVariant(prog, specs, f, variant, "quick", nil, nil, nil)
			mu.Lock()
			all = append(all, rs...)
			mu.Unlock()
		}(f)
	}
	wg.Wait()
	sort.Slice(all, func(i, j int) bool { return all[i].Name < all[j].Name })
	counts := map[string]int{}
	for _, r := range all {
		counts[r.Status]++
		if fnName != "" || r.Status != "proved" {
			fmt.Printf("%-11s %-70s %5.2fs %s %s\n", r.Status, r.Name, r.Secs, r.Solver, r.Detail)
		}
		if (r.Status != "proved" || os.Getenv("GOVC_DUMPALL") != "") && dump != "" && r.Query != "" {
			os.MkdirAll(dump, 0o755)
			fn := sanitize(r.Name)
			if len(fn) > 150 {
				fn = fmt.Sprintf("%s_%08x", fn[:150], crc32.ChecksumIEEE([]byte(fn)))
			}
			os.WriteFile(dump+"/"+fn+".smt2", []byte(r.Query+"(check-sat)\n(get-model)\n"), 0o644)
		}
	}
	fmt.Println(counts)
	return 0
}
