#!/bin/bash
# usage: seedtest.sh <seed-dir with patch.diff + demo_test.go> <worktree> <demo-target-dir-rel> <modules...>
# Confirms: patch applies, listed modules' suites pass with it, demo fails with it and passes without it.
set -u
export GOFLAGS=-mod=mod GOPROXY=off GOSUMDB=off GOTOOLCHAIN=local
seed=$1; wt=$2; demodir=$3; shift 3
cd "$wt" && git checkout -q -- . && git clean -fdq
find "$wt" -name zz_contracts_verif.go -delete 2>/dev/null
git apply "$seed/patch.diff" || { echo "APPLY-FAILED"; exit 1; }
ok=1
for m in "$@"; do
  (cd "$wt/$m" && go build ./... && go test -vet=off -count=1 ./... >/tmp/seedtest.$$.log 2>&1) || { echo "SUITE-FAILS-WITH-PATCH in $m"; tail -5 /tmp/seedtest.$$.log; ok=0; }
done
cp "$seed/demo_test.go" "$wt/$demodir/zz_seed_demo_test.go"
(cd "$wt/$demodir" && go test -vet=off -count=1 -run 'Seed|Demo' . >/tmp/seedtest.$$.log 2>&1) && { echo "DEMO-PASSES-WITH-PATCH (bad)"; ok=0; } || echo "demo fails with patch (good): $(grep -m1 -E '^\s+.*_test.go' /tmp/seedtest.$$.log | cut -c1-160)"
git checkout -q -- . ; find "$wt" -name zz_contracts_verif.go -delete 2>/dev/null
(cd "$wt/$demodir" && go test -vet=off -count=1 -run 'Seed|Demo' . >/tmp/seedtest.$$.log 2>&1) && echo "demo passes without patch (good)" || { echo "DEMO-FAILS-WITHOUT-PATCH (bad)"; tail -5 /tmp/seedtest.$$.log; ok=0; }
rm -f "$wt/$demodir/zz_seed_demo_test.go" /tmp/seedtest.$$.log
git checkout -q -- . && git clean -fdq
[ $ok = 1 ] && echo "SEED-CONFIRMED" || echo "SEED-REJECTED"
