#!/bin/bash
# Canaries for the frame machinery: small functions added to a scratch copy of util/semver,
# some of which violate their contracts. Expected: the canBad*/canUseAlias postconditions or
# invariants are NOT discharged, everything else is.
export GOFLAGS=-mod=mod GOPROXY=off GOSUMDB=off GOTOOLCHAIN=local
S=/var/tmp/canary-repo
rm -rf $S && mkdir -p $S/util && cp -r /repo/util/semver $S/util/
cp /verif/tools/canaries/canary.go.txt $S/util/semver/canary.go
cat /verif/tools/canaries/contracts.txt >> $S/util/semver/zz_contracts_verif.go
fail=0
for f in canBad1 canBad2 canBad3 canUseAlias; do
  out=$(GOVC_REPO=$S /verif/bin/govc vc -module util/semver -pkg deps.dev/util/semver -func semver.$f 2>&1 | grep -E "#post|#inv.preserve")
  if echo "$out" | grep -qv "^proved"; then echo "ok   $f: not discharged, as it must be"; else echo "BAD  $f: discharged although the code violates the contract"; fail=1; fi
done
for f in canGood3 canCallee canUse canMk; do
  out=$(GOVC_REPO=$S /verif/bin/govc vc -module util/semver -pkg deps.dev/util/semver -func semver.$f 2>&1 | grep -E "#post|#inv")
  if echo "$out" | grep -qv "^proved"; then echo "BAD  $f: not discharged although it holds"; fail=1; else echo "ok   $f: discharged"; fi
done
rm -rf $S
exit $fail
