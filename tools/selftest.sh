#!/bin/bash
# Must-fail selftest: every seeded change recorded as CAUGHT must still make its
# property's quick check exit 1 with a VIOLATION line, and the unchanged copy must
# stay quiet. Works on a scratch copy of /repo (GOVC_REPO), never on /repo itself.
# usage: tools/selftest.sh [name-prefix]     (e.g. C03, or nothing for all)
export GOFLAGS=-mod=mod GOPROXY=off GOSUMDB=off GOTOOLCHAIN=local
S=/var/tmp/selftest-repo
out=/var/tmp/selftest.log
: > $out
fail=0
for d in /verif/seeded/${1}*/; do
  name=$(basename $d)
  prop=$(python3 -c "import json;print(json.load(open('$d/meta.json'))['property'])")
  want=$(python3 -c "import json;r=json.load(open('$d/meta.json'))['check_result'];print('MISSED' if r.startswith('MISSED') else 'CAUGHT')")
  rm -rf $S && mkdir -p $S && rsync -a --exclude .git /repo/ $S/
  if ! (cd $S && patch -s -p1 < $d/patch.diff); then echo "$name: patch does not apply" | tee -a $out; fail=1; continue; fi
  res=$(GOVC_REPO=$S /verif/bin/govc check -property $prop 2>&1 | grep -E "^VIOLATION" | head -1)
  if [ -n "$res" ]; then got=CAUGHT; else got=MISSED; fi
  echo "$name: recorded=$want now=$got  ${res:0:160}" | tee -a $out
  if [ "$want" = "CAUGHT" ] && [ "$got" != "CAUGHT" ]; then fail=1; echo "  REGRESSION" | tee -a $out; fi
done
rm -rf $S
exit $fail
