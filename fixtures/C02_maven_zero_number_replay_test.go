package semver

import "testing"

// Replay of the failing obligation lemma:semver.maven.null_item.zero#1 (a Maven number written
// with zeros only is a null item, like "0"): before the fix 315e5e7 the parser kept the element
// "00", so 1.0 < 1.00 and 1 < 1.00, where Maven's ComparableVersion says they are equal.
// Run with: go test -overlay (this file as util/semver/zz_replay_test.go) -vet=off -run TestMavenZeroNumberReplay
func TestMavenZeroNumberReplay(t *testing.T) {
	for _, p := range [][2]string{{"1", "1.00"}, {"1.0", "1.00"}, {"1-00", "1"}, {"1.00-rc1", "1-rc1"}, {"2.000.1", "2.0.1"}} {
		a, err := Maven.Parse(p[0])
		if err != nil {
			t.Fatal(err)
		}
		b, err := Maven.Parse(p[1])
		if err != nil {
			t.Fatal(err)
		}
		t.Logf("Maven compare(%s, %s) = %d, reverse %d", p[0], p[1], a.Compare(b), b.Compare(a))
		if a.Compare(b) != 0 || b.Compare(a) != 0 {
			t.Errorf("Maven compare(%s, %s) = %d (reverse %d); ComparableVersion gives 0", p[0], p[1], a.Compare(b), b.Compare(a))
		}
	}
}
