package semver

import "testing"

// Replay of the known finding semver.canon#assert:at "=i++": j == i + 1.
// canon steps i past ONE element after consuming s[j]; when elements between i and j were passed
// over (here the unit span 2.0.0-alpha, which cannot be merged with release bounds), the element
// at i+1 is lost and s[j] is emitted a second time.
// Run with:  go test -overlay <json mapping this file into util/semver> -vet=off -run TestCanonSkippedElementReplay
func TestCanonSkippedElementReplay(t *testing.T) {
	c, err := NPM.ParseConstraint(">=1.0.0 <2.0.0 || 2.0.0-alpha || >=2.0.0 <3.0.0")
	if err != nil {
		t.Fatal(err)
	}
	v, _ := NPM.Parse("2.0.0-alpha")
	t.Logf("set = %s, matches 2.0.0-alpha: normal %v, interval %v", c.Set(), c.MatchVersion(v), c.MatchVersionPrerelease(v))
	if !c.MatchVersion(v) {
		t.Errorf("the union does not match 2.0.0-alpha, which its second alternative is")
	}
}
