package semver

import "testing"

// Replay of the failing obligation semver.canon#assert at "this.rank = vector" (a merged span adds nothing):
// two spans facing each other across an excluded end are merged as if they were adjacent.
func TestCanonReplay(t *testing.T) {
	for _, tc := range []struct{ sys System; c, v string }{
		{NPM, ">=1.0.0 <2.0.0 || >=2.0.1 <3.0.0", "2.0.0"},
		{Cargo, ">=1.0.0, <2.0.0", "2.0.0"}, // control: must not match
	} {
		c, err := tc.sys.ParseConstraint(tc.c)
		if err != nil {
			t.Fatal(err)
		}
		t.Logf("%s %q -> %s, matches %s: %v", tc.sys, tc.c, c.Set(), tc.v, c.Match(tc.v))
		if c.Match(tc.v) {
			t.Errorf("%q matches %s, which neither alternative matches", tc.c, tc.v)
		}
	}
	a, _ := NPM.ParseSetConstraint("{[1.0.0:1.2.3]}")
	b, _ := NPM.ParseSetConstraint("{(1.2.4:2.0.0]}")
	u := a.Set()
	if err := u.Union(b.Set()); err != nil {
		t.Fatal(err)
	}
	ok, _ := u.Match("1.2.4")
	t.Logf("[1.0.0:1.2.3] ∪ (1.2.4:2.0.0] = %s, matches 1.2.4: %v", u, ok)
	if ok {
		t.Errorf("union matches 1.2.4, which neither operand matches")
	}
}
